#!/bin/sh
# tools/sweep.sh <out-file> <seeded-id>...   run each seeded change on a scratch copy of /repo (in parallel-safe
# scratch directories under /tmp) against the check of the property it targets; /repo itself is not touched.
out="$1"; shift
for id in "$@"; do
  d=/verif/seeded/$id
  prop=$(echo $id | cut -d_ -f1)
  w=/tmp/sw/$id; rm -rf $w; mkdir -p $w/verif
  rsync -a --exclude .git /repo/ $w/repo/
  (cd $w/repo && patch -p1 -s < $d/patch.diff) || { echo "$id PATCH-FAILED" >> $out; rm -rf $w; continue; }
  cp -r /verif/contracts $w/verif/; cp /verif/known_findings.json $w/verif/ 2>/dev/null
  /verif/bin/govc -repo $w/repo -verif $w/verif -timeout 10 check $prop quick > $w/log 2>&1; rc=$?
  n=$(grep -c '^VIOLATION' $w/log)
  echo "$id prop=$prop exit=$rc violations=$n first=$(grep '^VIOLATION' $w/log | head -3 | sed 's/.*obligation=//' | cut -c1-110 | tr '\n' '|')" >> $out
  rm -rf $w
done
