#!/bin/sh
# tools/mutant.sh <seeded-dir> <property>...   apply a seeded change to /repo, run the checks, undo it
d="$1"; shift
cd /repo || exit 2
if [ -n "$(git status --porcelain)" ]; then echo "/repo not clean"; exit 2; fi
git apply "$d/patch.diff" || { echo "patch does not apply"; exit 3; }
cd /verif
mkdir -p /tmp/evsave && cp evidence/*.json /tmp/evsave/ 2>/dev/null
for p in "$@"; do
  ./check "$p" quick > /tmp/mutant_$p.log 2>&1; rc=$?
  echo "== $d $p exit=$rc violations=$(grep -c '^VIOLATION' /tmp/mutant_$p.log)"
  grep '^VIOLATION' /tmp/mutant_$p.log | sed 's/.*obligation=//' | head -5
done
git -C /repo checkout -- .
cp /tmp/evsave/*.json /verif/evidence/ 2>/dev/null; rm -rf /verif/replays/* 2>/dev/null
