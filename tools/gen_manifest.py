#!/usr/bin/env python3
# Regenerates /verif/MANIFEST.json from the table below (kept in one place so it stays consistent).
import json, subprocess
ALL = ["C%02d" % i for i in range(1, 21)]
TRUST = ("Trusted base: the VC generator in /verif/engine and go/ssa; assumed (K) contracts of the reflection-driven codec and of "
         "standard-library functions in /verif/contracts/*.spec (each used one is listed in the evidence); A-len, A-sum, A-scratch, "
         "A-pkginv (package invariants assumed on entry of exported functions); integers are mathematical with overflow obligations.")
CLAIMS = {
 "C11": ("contract-based deductive verification: SSA->SMT weakest-precondition VCs, discharged by z3/cvc5",
         "DecodePatch, validatePatch, validateOperation and the Operation accessors are verified from their SSA against the property's "
         "shape predicate (opShape over the JSON value, validOp over the decoded member map): err == nil iff well-formed array of valid "
         "operations, nil Patch on error, accessors return the decoded members. Unbounded in patch length and content.",
         "Relies on K3 (string), K5 (Patch), K6 (interface{}) decoder contracts and json.Valid <=> wf (trusted here, subject of C16). "),
}
NA_REASON = {
 "C17": "reflection-driven codec over arbitrary Go types and relational equivalence with encoding/json are outside what function contracts within reach of an SSA-level VC generator can express (DESIGN.md section 15)",
}
def main():
    hooks_commits = subprocess.run(["git", "-C", "/repo", "log", "--format=%h", "--grep=^verif:"], capture_output=True, text=True).stdout.split()
    checks = []
    for pid in ALL:
        if pid in CLAIMS:
            tech, text, note = CLAIMS[pid]
            checks.append({
                "property_id": pid,
                "quick_cmd": "./check %s quick" % pid,
                "thorough_cmd": "./check %s thorough" % pid,
                "evidence_file": "/verif/evidence/%s.json" % pid,
                "replay_cmd_template": "./check replay {path}",
                "engine": "govc",
                "level_claimed": {"category": "proof", "text": text, "design_ref": "DESIGN.md section 13"},
                "level_note": note + TRUST,
                "technique": tech,
            })
    na = []
    for pid in ALL:
        if pid not in CLAIMS:
            na.append({"property_id": pid, "reason": NA_REASON.get(pid, "not claimed yet: the contracts this property needs are not all discharged on the unchanged tree (work in progress; see DESIGN.md section 19)")})
    m = {
        "version": 1,
        "setup_cmd": "cd /verif/engine && GOFLAGS=-mod=vendor GOPROXY=off GOSUMDB=off GOTOOLCHAIN=local CGO_ENABLED=0 go build -o ../bin/govc .",
        "hooks": {
            "guard": "verif",
            "enable": "go/packages load with -tags verif; the tag adds only comment-only contract files (verif_contracts.go), no declarations",
            "baseline_off_cmd": "cd /repo/v5 && GOFLAGS=-mod=mod GOPROXY=off go test -vet=off -count=1 ./...",
            "source_commits": hooks_commits,
            "add_only": True,
        },
        "engines": [{"name": "govc", "path": "/verif/engine", "serves_properties": sorted(CLAIMS), "kind_free_text": "Go SSA -> SMT-LIB verification-condition generator with contract language; z3 5.1.0 / cvc5 1.0.3 / z3 4.8.12 raced per obligation"}],
        "checks": checks,
        "notes": "Contracts on repository functions: /repo/**/verif_contracts.go (build tag verif). Assumed contracts and specification vocabulary: /verif/contracts/*.spec. Findings: /verif/known_findings.json. Seeded changes used to test the checks: /verif/seeded/.",
        "not_applicable": na,
    }
    json.dump(m, open("/verif/MANIFEST.json", "w"), indent=1)
    print("claimed:", sorted(CLAIMS))
main()
