#!/usr/bin/env python3
# Regenerates /verif/MANIFEST.json from the table below (kept in one place so it stays consistent).
import json, subprocess
ALL = ["C%02d" % i for i in range(1, 21)]
TRUST = ("Trusted base: the VC generator in /verif/engine and go/ssa; assumed (K) contracts of the reflection-driven codec and of "
         "standard-library functions in /verif/contracts/*.spec (each used one is listed in the evidence); A-len, A-sum, A-scratch, "
         "A-pkginv (package invariants assumed on entry of exported functions); integers are mathematical with overflow obligations; in-memory pointers into struct fields are modelled only for fields whose address the program takes.")
TECH = "contract-based deductive verification: SSA->SMT weakest-precondition VCs, discharged by z3/cvc5"
CLAIMS = {
 "C01": (TECH, "Every function on the v5 Apply path (pointer walk, container primitives, the six operations, the dispatch loop) is verified from its SSA against one-level RFC 6902/6901 contracts: index arithmetic incl. negative indices and '-', member set/replace/remove, move = remove (before the destination is resolved) then add of the same node, copy inserts a fresh duplicate spelled as the output, test treats absent members and stored nulls as null, root replacement only by object/array. Unbounded in document, path and patch size.",
         "Pointer-level (one container at a time): the composition of these member-wise effects over the whole tree to the RFC result is a meta step (containers form a tree without sharing; DESIGN M-tree). Decoder/encoder behaviour is assumed (K1-K5, K11, K12). "),
 "C02": (TECH, "merge, mergeDocs, pruneNulls, pruneDocNulls, pruneAryNulls and doMergePatch are verified from their SSA: every branch of RFC 7396's pseudo-code is pinned to a branch of the code by call-site clauses (null member => remove, new member => stored after pruning, existing member => recursive merge), arrays are left untouched (frame), ill-formed inputs are rejected.",
         "Member-dispatch level: value-level equality with the recursive RFC function is a meta step (M-tree); assumes A-merge-entry (no node holding the text null exists when MergePatch starts), K1, K2, K12. "),
 "C03": (TECH, "CreateMergePatch is verified one level of the difference at a time, on the decoded trees: getDiff returns a fresh object that contains exactly - every member of B that A lacks (with B's value), every member of A that B lacks as null, every member whose kind changed (B's value), every scalar member whose value changed (strings by value, numbers by their literal text, booleans) and none that did not, nested objects only when their recursive difference is non-empty, changed arrays replaced by B's; matchesValue/matchesArray compare kinds, strings, number literals, booleans, member names, sizes and lengths; createObjectMergePatch hands the two decoded documents to getDiff and returns its result, createArrayMergePatch pairs the elements by index; ill-formed input, roots that are not both objects / both arrays, scalars and arrays of different length are rejected.",
         "One level at a time: that the recursive composition is a minimal patch whose application reproduces B (the round-trip law with MergePatch) is a meta step over the tree (M-tree); the link between the decoded map[string]interface{} trees and the JSON texts (K8: numbers as json.Number literals, member names) and the encoder's output (K9) are assumed; CreateMergePatch accepts null elements in arrays of documents (read as empty objects), which the property puts outside its domain. "),
 "C04": (TECH, "Panic-freedom sweep: every SSA instruction that can panic (nil dereference, index, slice bounds, map write to nil, type assertion, division, explicit panic, make with a negative size) in every function of patch.go, merge.go and errors.go of BOTH the v5 module and the legacy root package, and in every state function of the embedded scanner, is an obligation proved under the function's precondition; every call is checked against the callee's precondition; integer overflow obligations on int/int64 arithmetic. Unbounded in input size and nesting.",
         "Termination is proved only where a `decreases` clause is given (loops over slices/maps terminate by construction); recursion depth and memory are not modelled. The reflection-driven decoder/encoder bodies (v5/internal/json decode.go, encode.go; encoding/json for the root) are NOT swept: they are assumed not to panic on input their callers validated (K contracts; for v5 the callers' Valid gates are proved under C16's clauses). Exported functions are verified for every patch DecodePatch can return (patchOK) and any non-nil options, as the property states. "),
 "C05": (TECH, "The order clauses of the container contracts (existing key keeps its position, new key is appended, removal keeps the order of the rest), the frame clauses (untouched children, parsed nodes and raw bytes are not written) and TrustMarshalJSON's emission order (members written in keys order, one name/value per key) are verified from the SSA.",
         "Document-order of keys from the decoder and literal-preserving compaction are assumed (K1, K10, K11). "),
 "C06": (TECH, "lazyNode.equal is verified (recursively, against its own contract) for: null equals only null, strings compared by unescaped value, kind mismatches unequal, objects need the same member names with null/non-null agreement, arrays the same length and null/non-null pattern; Equal rejects ill-formed input. No panic on any input.",
         "One level at a time (the recursive composition to full structural equality is by the function's own contract on children); scalar comparison by compacted text is assumed to coincide with literal equality (K10). "),
 "C07": (TECH, "mergeDocs/merge in mergeMerge mode are verified: null members of the second patch are kept (never removed, key list extended), new members are stored unpruned, existing members are merged recursively, and only the listed callees may be called (no pruning on the merge-merge path).",
         "Member-dispatch level; the composition law itself (apply P1 then P2 = apply the merged patch) is not mechanised. "),
 "C08": (TECH, "Error-attribute postconditions (isTestFailed / isMissing / isCopyLimit = errors.Is / errors.As) are verified on every return of the primitives and the six operations from the constant %w format strings; Apply returns (nil, err) at the first failing operation (loop invariant) and every error path of the exported wrappers returns a nil document.",
         "fmt.Errorf / errors.Unwrap contracts are assumed; package-level error variables are assumed never reassigned. "),
 "C11": (TECH, "DecodePatch, validatePatch, validateOperation and the Operation accessors are verified from their SSA against the property's shape predicate (opShape over the JSON value, validOp over the decoded member map): err == nil iff well-formed array of valid operations, nil Patch on error, accessors return the decoded members. Unbounded in patch length and content.",
         "Relies on K3 (string), K5 (Patch), K6 (interface{}) decoder contracts and json.Valid <=> wf (trusted here, subject of C16). "),
 "C12": (TECH, "Patch.copy is verified: the total is increased by exactly the size of the duplicate as spelled in the output (compact, HTML-escaped per the call's options) before it is compared; the error is the copy-limit error iff limit > 0 and total > limit, using the per-call option; nothing is inserted when over the limit; other operations cannot touch the total (frame); NewApplyOptions copies the package defaults.",
         "K11 (MarshalEscaped spells a raw node as the output does); A-sum (the running total stays below 2^62). The legacy root package is not covered yet. "),
 "C13": (TECH, "Both modes of the three remove functions are verified in one contract each: an existing target is removed regardless of the option, an absent member / out-of-range index / unreachable parent is skipped (state unchanged, nil) with the option and an error without it, a negative index with negative indices disabled is an error in both modes.",
         "That no other function reads the option is checked only through the contracts of the functions that receive it. "),
 "C14": (TECH, "ensurePathExists is verified for: lookups and stores use the RFC 6901-decoded token (call-site clauses), array padding appends at the end, the number of padding nulls of a created array is derived from the next token, containers and the root stay well-formed; Patch.add calls it before resolving the parent.",
         "The whole-path postcondition (afterwards the parent resolves) is not mechanised; K1, K2, strconv contracts assumed. "),
 "C15": (TECH, "TrustMarshalJSON is verified to write '{', the members in keys order as name ':' value separated by ',', and '}', escaping names and values per the object's options (default escape); RedirectMarshalJSON never reports an unknown node type under the node invariant; ApplyIndent re-indents the marshalled output.",
         "Well-formedness of the encoder's output and of Indent is assumed (K10-K12); the loss of options on objects parsed by a test operation is a known finding candidate not yet covered. "),
 "C16": (TECH, "The embedded scanner is verified as an implementation of the RFC 8259 byte-level automaton one step at a time: each of its 31 state functions against the automaton's rows (for every byte value: successor state, opcode, effect on the nesting stack, nesting limit 10000), the stack primitives, and the drivers: checkValid resets the scanner, feeds every byte of the input in order to the current state (call-site clause on the call through scanner.step), stops at the first scanError and otherwise asks eof, which feeds one space and accepts iff the top-level value is complete; Valid is checkValid == nil. On top of that the gates of the public entry points are verified: DecodePatch, Apply*, MergePatch, MergeMergePatches, CreateMergePatch and Equal reject ill-formed input before the unvalidated decoder is called.",
         "Language equality proper - 'accepted by the implementation iff generated by the grammar' - is the meta clause checkValid/accepts-iff-wf: it follows from the verified rows and drivers by induction over the input (not mechanised) and from the rows being RFC 8259's automaton (written from the RFC, Appendix B). Compact, Indent and the reflective Unmarshal share the same state functions but their own loops are not verified (K10); Apply's first-byte dispatch and the empty-document early return are outside the verified clauses (candidates F12/F13 in DESIGN.md section K). The pool wrappers newScanner/freeScanner are assumed. "),
 "C18": (TECH, "Legacy root package: every function on the Apply path of /repo/patch.go (container primitives on map/slice values, lazy parsing, pointer walk, the six operations, the dispatch loop, DecodePatch) is verified from its SSA against one-level RFC 6902/6901 contracts with the v4 dialect: index arithmetic with the SupportNegativeIndices package setting, '-' append, member set/remove, move = remove then add of the same node, copy inserts a fresh duplicate with the same value and accounts its size against AccumulatedCopySizeLimit, failing test / absent remove or move source / out-of-range index are errors of the stated kind with no document. Pointers into struct fields (&n.doc, &n.ary) are modelled exactly (paddr encoding).",
         "Pointer-level, one container at a time (composition over the tree is the meta step M-tree). encoding/json's Unmarshal/Marshal/Compact at the used instantiations are assumed (KR contracts in contracts/root.spec). replace of an absent object member succeeds in v4 (outside the property's domain of applicable patches). "),
 "C19": (TECH, "Legacy root package merge.go: merge, mergeDocs, pruneNulls, pruneDocNulls, pruneAryNulls and doMergePatch are verified from their SSA: RFC 7396's branches are pinned by call-site clauses and closed callee lists (null member deletes only when applying, new members are pruned only when applying, existing members are merged recursively with the same mode, arrays are left untouched), ill-formed documents and patches are rejected, no node holding the text null is ever stored; lazyNode.equal treats an absent operand as unequal and leaves already-parsed nodes untouched.",
         "Member-dispatch level (as C02/C07); CreateMergePatch/getDiff/matchesValue are verified one level of the difference at a time as in C03 (numbers compared as float64 values, the v4 dialect); the round-trip/minimality composition is a meta step; Equal's agreement with structural equality is proved one level at a time only for the null/absent cases. Assumes A-merge-entry and the KR contracts. "),
 "C20": (TECH, "main of the json-patch command (v5/cmd and the root copy) is verified from its SSA: the patch files are read in the order of the option slice, each is decoded from exactly the bytes read, the document read from standard input is folded through Patch.Apply in that order, each patch applied to the result of the previous one (call-site clauses with loop invariants), the only write to standard output is one Printf with the constant format \"%s\" and the final document as its single []byte operand (ghost state Stdout), and every failure (flag parsing, reading, decoding, applying) ends in log.Fatalf with nothing written to standard output before it; Apply's preconditions (a patch DecodePatch returned) are discharged at the call.",
         "Process-level behaviour is assumed, not proved: log.Fatalf writes to standard error and exits with status 1 without returning, a normal return of main is exit status 0, fmt.Printf with \"%s\" writes the operand verbatim, go-flags fills the option slice in command-line order through FileFlag.UnmarshalFlag (verified only for panic freedom; os.Stat/filepath.Abs assumed), ioutil.ReadFile/ReadAll return the file / standard input. "),
}
NA_REASON = {
 "C17": "reflection-driven codec over arbitrary Go types and relational equivalence with encoding/json are outside what function contracts within reach of an SSA-level VC generator can express (DESIGN.md section 15)",
}
def main():
    hooks_commits = subprocess.run(["git", "-C", "/repo", "log", "--format=%h", "--grep=^verif:"], capture_output=True, text=True).stdout.split()
    checks = []
    for pid in ALL:
        if pid in CLAIMS:
            tech, text, note = CLAIMS[pid]
            checks.append({
                "property_id": pid,
                "quick_cmd": "./check %s quick" % pid,
                "thorough_cmd": "./check %s thorough" % pid,
                "evidence_file": "/verif/evidence/%s.json" % pid,
                "replay_cmd_template": "./check replay {path}",
                "engine": "govc",
                "level_claimed": {"category": "proof", "text": text, "design_ref": "DESIGN.md section 13"},
                "level_note": note + TRUST,
                "technique": tech,
            })
    na = []
    for pid in ALL:
        if pid not in CLAIMS:
            na.append({"property_id": pid, "reason": NA_REASON.get(pid, "not claimed yet: the contracts this property needs are not all discharged on the unchanged tree (work in progress; see DESIGN.md section 19)")})
    m = {
        "version": 1,
        "setup_cmd": "cd /verif/engine && GOFLAGS=-mod=vendor GOPROXY=off GOSUMDB=off GOTOOLCHAIN=local CGO_ENABLED=0 go build -o ../bin/govc .",
        "hooks": {
            "guard": "verif",
            "enable": "go/packages load with -tags verif; the tag adds only comment-only contract files (verif_contracts.go), no declarations",
            "baseline_off_cmd": "cd /repo/v5 && GOFLAGS=-mod=mod GOPROXY=off go test -vet=off -count=1 ./...",
            "source_commits": hooks_commits,
            "add_only": True,
        },
        "engines": [{"name": "govc", "path": "/verif/engine", "serves_properties": sorted(CLAIMS), "kind_free_text": "Go SSA -> SMT-LIB verification-condition generator with contract language; z3 5.1.0 / cvc5 1.0.3 / z3 4.8.12 raced per obligation"}],
        "checks": checks,
        "notes": "Contracts on repository functions: /repo/**/verif_contracts.go (build tag verif). Assumed contracts and specification vocabulary: /verif/contracts/*.spec. Findings: /verif/known_findings.json. Seeded changes used to test the checks: /verif/seeded/.",
        "not_applicable": na,
    }
    json.dump(m, open("/verif/MANIFEST.json", "w"), indent=1)
    print("claimed:", sorted(CLAIMS))
main()
