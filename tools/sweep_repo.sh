#!/bin/bash
# tools/sweep_repo.sh <out.jsonl> <seeded-id>...  For each seeded change: apply it to /repo (git apply), run the quick
# check of the property it targets (C04 for properties that are not claimed), undo it (git checkout -- .).
# /repo must be clean; evidence files are saved and restored; nothing is committed.
out="$1"; shift
cd /repo || exit 2
[ -z "$(git status --porcelain)" ] || { echo "/repo not clean"; exit 2; }
claimed=$(python3 -c "import json;print(' '.join(c['property_id'] for c in json.load(open('/verif/MANIFEST.json'))['checks']))")
mkdir -p /tmp/evsave && cp /verif/evidence/*.json /tmp/evsave/
for id in "$@"; do
  d=/verif/seeded/$id; prop=${id%%_*}; run=$prop
  case " $claimed " in *" $prop "*) ;; *) run=C04; [ "$prop" = C10 ] && run=C09;; esac
  if ! git -C /repo apply "$d/patch.diff" 2>/dev/null; then
    python3 -c "import json;print(json.dumps({'id':'$id','property':'$prop','status':'patch-does-not-apply'}))" >> "$out"; continue
  fi
  s=$(date +%s)
  (cd /verif && ./check $run quick > /tmp/sweep_$id.log 2>&1); rc=$?
  git -C /repo checkout -- .
  python3 - "$id" "$prop" "$run" "$rc" "$(( $(date +%s) - s ))" /tmp/sweep_$id.log >> "$out" <<'PY'
import json,sys,re
id,prop,run,rc,secs,log=sys.argv[1:7]
v=[l for l in open(log) if l.startswith('VIOLATION')]
obl=[(re.search(r'obligation=(.*?) status=(\S+)',l).groups() if re.search(r'obligation=(.*?) status=(\S+)',l) else (l.strip(),'')) for l in v]
print(json.dumps({'id':id,'property':prop,'check_run':run,'exit':int(rc),'seconds':int(secs),'violations':len(v),
  'obligations':[{'name':n,'status':s,'no_failing_input':('no-failing-input-found' in l)} for (n,s),l in zip(obl,v)][:8],
  'summary':open(log).read().strip().split('\n')[-1][:300]}))
PY
  rm -f /tmp/sweep_$id.log
done
cp /tmp/evsave/*.json /verif/evidence/; rm -rf /verif/replays/* 2>/dev/null
