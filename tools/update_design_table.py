#!/usr/bin/env python3
# Copies seeded/TABLE.md (tools/seeded_table.py) into DESIGN.md between the seeded-table markers.
p='/verif/DESIGN.md'; s=open(p).read()
b='<!-- seeded-table-begin -->'; e='<!-- seeded-table-end -->'
i=s.index(b)+len(b); j=s.index(e)
s=s[:i]+'\n'+open('/verif/seeded/TABLE.md').read()+s[j:]
open(p,'w').write(s)
print('table copied')
