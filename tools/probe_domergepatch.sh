#!/bin/bash
# Reachability probes for the case analysis of v5 doMergePatch (DESIGN section H/L): on a scratch copy of /repo a
# guarded panic is put in front of each branch; every probe must come back as a FAILED S.panic obligation
# (= the branch is reachable under the function's assumptions). Prints the probes that were reported.
set -e
w=$(mktemp -d /tmp/probe.XXXXXX); trap 'rm -rf "$w"' EXIT
rsync -a --exclude .git /repo/ "$w"/
python3 - "$w/v5/merge.go" <<'PY'
import sys
p=sys.argv[1]; s=open(p).read()
i=s.index('func doMergePatch'); j=s.index('\nfunc isSyntaxError')
b=s[i:j]
def pr(n): return 'if len(docData) == 7770+%d {\n\t\t\tpanic("probe%d")\n\t\t}\n'%(n,n)
reps=[("\t\treturn nil, ErrBadJSONDoc\n\t}\n\n\tif patchErr == nil && patch.obj == nil", 1),
      ("\t\treturn patchData, nil\n\t}\n\n\tif docErr != nil || patchErr != nil", 2),
      ("\t\t\t\tdoc = patch\n", 3), ("\t\t\t\tdoc = pruneDocNulls(patch, options)", 4),
      ("\t\t\tpruneAryNulls(patchAry, options)", 5), ("\t\t\t\t\treturn patchData, nil", 6),
      ("\t\tmergeDocs(doc, patch, mergeMerge, options)", 7)]
for a,n in reps:
    assert a in b, a
    b=b.replace(a, pr(n)+a, 1)
open(p,'w').write(s[:i]+b+s[j:])
PY
cd /verif && bin/govc -repo "$w" -timeout 30 prove 'v5\.doMergePatch$' C04 2>&1 | grep -o 'FATAL.*\|S.panic/panic("probe[0-9]")' | sort -u
