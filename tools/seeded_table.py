#!/usr/bin/env python3
# Builds the "which check catches which seeded change" table (DESIGN.md section M.1) from
# seeded/confirm.jsonl (tools/confirm_seeded.sh) and seeded/results.jsonl (tools/sweep_repo.sh),
# and records both in each seeded/<id>/meta.json under "verified_here".
import json, os
S='/verif/seeded'
conf={json.loads(l)['id']:json.loads(l) for l in open(f'{S}/confirm.jsonl')}
res={}
if os.path.exists(f'{S}/results.jsonl'):
    for l in open(f'{S}/results.jsonl'):
        d=json.loads(l); res[d['id']]=d
claimed={c['property_id'] for c in json.load(open('/verif/MANIFEST.json'))['checks']}
lines=["| change | breaks | confirmed | check run | outcome | first failing obligation |","|---|---|---|---|---|---|"]
for id in sorted(conf):
    c=conf[id]; r=res.get(id)
    prop=id.split('_')[0]
    if r is None:
        out="not run (property not claimed; no check to run)" if prop not in claimed else "not run"; run="-"; first=""
    elif r.get('status')=='patch-does-not-apply':
        out="change no longer applies (the code it edits was repaired)"; run="-"; first=""
    else:
        run=r['check_run']
        if r['violations']>0:
            out="DETECTED (%d obligations)"%r['violations']; o=r['obligations'][0]; first="`%s` [%s]"%(o['name'][:90],o['status'])
            if r.get('note'): out+=" ("+r['note']+")"
        else:
            out="not detected"; first=""
        if run!=prop: out+=" — %s is not claimed"%prop
        if r.get('note') and r['violations']==0: out+=" ("+r['note']+")"
    lines.append(f"| {id} | {prop} | {c['status']} | {run} | {out} | {first} |")
    mp=f'{S}/{id}/meta.json'
    try: m=json.load(open(mp))
    except Exception: m={}
    m['verified_here']={'confirmation':c,'check_result':r}
    json.dump(m,open(mp,'w'),indent=2)
open(f'{S}/TABLE.md','w').write("\n".join(lines)+"\n")
print("\n".join(lines))
