#!/usr/bin/env python3
# tools/merge_results.py <sweep.jsonl>...  Replaces the entries of seeded/results.jsonl by the newer runs given
# (tools/sweep_repo.sh output), keeping the hand-written "note" of an entry, and adds the notes of NOTES below.
import json, sys
S='/verif/seeded/results.jsonl'
NOTES={
 'C02_E':'missed before the covers clause on mergeDocs (remove#1) was added',
 'C13_E':'missed before move\'s missing-source clause counted for C13',
 'C15_E':'missed before the call-site clauses on ensurePathExists\' parse calls were added',
 'C16_E':'missed before the every-byte-fed clause on compact\'s eof() call was added',
 'C08_E':'missed before the success-means-moved clause was added',
 'C19_E':'missed before the call-order and kept-only-after-merging clauses on merge were added',
 'C20_D':'missed before the output clause demanded that every patch was applied',
 'C15_D':'missed before the Apply loop\'s closed callee list counted for C15, and again in the final sweep until functions were selected by callee-list tags as well (re-run alone after that repair)',
 'C05_F':'missed before the success-means-moved clause and move\'s closed callee list counted for C05',
 'C18_F':'missed before the failures-have-causes clauses were added',
 'C02_F':'missed until the write-set defect was repaired (the new clauses on doMergePatch had held vacuously for object documents)',
 'C14_G':'missed before the call-site clauses on ensurePathExists\' invalid-index errors were added',
}
cur={}
order=[]
for l in open(S):
    d=json.loads(l); cur[d['id']]=d; order.append(d['id'])
for f in sys.argv[1:]:
    for l in open(f):
        d=json.loads(l)
        old=cur.get(d['id'])
        if old and old.get('note') and not d.get('note'): d['note']=old['note']
        if d['id'] not in cur: order.append(d['id'])
        cur[d['id']]=d
for k,v in NOTES.items():
    if k in cur and not cur[k].get('note'): cur[k]['note']=v
with open(S,'w') as o:
    for k in sorted(set(order)): o.write(json.dumps(cur[k])+'\n')
print(len(cur),'entries')
