#!/bin/bash
# Runs the thorough check of every claimed property in sequence on /repo's current tree; prints one summary line each.
cd /verif
for p in $(python3 -c "import json;print(' '.join(c['property_id'] for c in json.load(open('MANIFEST.json'))['checks']))"); do
  s=$(date +%s)
  out=$(./check $p thorough 2>&1); rc=$?
  echo "$p rc=$rc $(( $(date +%s) - s ))s $(echo "$out" | tail -1)"
  echo "$out" | grep -E "^(VIOLATION|KNOWN-FINDING|UNDECIDED)" | head -5
done
