#!/bin/bash
# Confirms one seeded change on a scratch copy of /repo (never in /repo itself):
#   1. the change applies and the code builds; the existing suite passes with it
#   2. its demonstration test FAILS with the change
#   3. the demonstration PASSES on the unchanged tree
# Usage: tools/confirm_seeded.sh <seeded-dir>   -> prints one JSON line; scratch copy removed afterwards.
export GOFLAGS=-mod=mod GOPROXY=off GOSUMDB=off GOTOOLCHAIN=local
sd=$(realpath "$1"); id=$(basename "$sd")
w=$(mktemp -d /tmp/cs.XXXXXX); trap 'rm -rf "$w"' EXIT
rsync -a --exclude .git /repo/ "$w"/
where=$(head -1 "$sd/demo_test.go.txt")
case "$where" in
  *"v5/internal/json"*) sub=v5/internal/json; mod=v5;;
  *"v5/cmd/json-patch"*) sub=v5/cmd/json-patch; mod=v5;;
  *"repository root"*) sub=.; mod=.;;
  *) sub=v5; mod=v5;;
esac
printf 'module github.com/evanphx/json-patch\n\ngo 1.18\n\nrequire github.com/jessevdk/go-flags v1.6.1\n\nrequire golang.org/x/sys v0.21.0 // indirect\n' > "$w"/go.mod; cp /repo/v5/go.sum "$w"/
race=""; case $id in C10_*) race="-race"; export CGO_ENABLED=1;; esac   # concurrency demonstrations need the race detector
cd "$w"
j() { python3 -c 'import json,sys; print(json.dumps(dict(zip(sys.argv[1::2], sys.argv[2::2]))))' "$@"; }
if ! git apply --check "$sd/patch.diff" 2>/tmp/cs_err_$id; then j id $id status "patch-does-not-apply" detail "$(head -c 300 /tmp/cs_err_$id)"; rm -f /tmp/cs_err_$id; exit 0; fi
rm -f /tmp/cs_err_$id
git apply "$sd/patch.diff"
suite=$( (cd v5 && go test -vet=off -count=1 ./... 2>&1) ; (cd "$w" && go test -vet=off -count=1 . 2>&1) )
if echo "$suite" | grep -q "^FAIL\|^--- FAIL\|build failed"; then j id $id status "suite-fails-with-change" detail "$(echo "$suite" | grep -m3 'FAIL')"; exit 0; fi
cp "$sd/demo_test.go.txt" "$sub/zz_seeded_demo_test.go"
with=$(cd "$sub" && go test $race -vet=off -count=1 -timeout 300s -run '^TestSeeded' . 2>&1)
git apply -R "$sd/patch.diff"
without=$(cd "$sub" && go test $race -vet=off -count=1 -timeout 300s -run '^TestSeeded' . 2>&1)
wf=no; echo "$with" | grep -q "^--- FAIL\|^FAIL\|^panic:" && ! echo "$with" | grep -q "build failed" && wf=yes
wo=no; echo "$without" | grep -q "^ok" && wo=yes
st=confirmed; [ $wf = yes ] || st="demo-does-not-fail-with-change"; [ $wo = yes ] || st="demo-fails-on-unchanged-tree"
j id $id status "$st" with_change "$(echo "$with" | grep -m2 -- '--- FAIL\|^FAIL\|^ok\|panic' | tr '\n' ' ')" unchanged "$(echo "$without" | tail -1)"
