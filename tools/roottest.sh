#!/bin/bash
# Runs the legacy root package's own tests (not part of the pinned suite: the root has no go.mod) from a
# throw-away staged module. Usage: tools/roottest.sh [extra _test.go files to drop in]
export GOFLAGS=-mod=mod GOPROXY=off GOSUMDB=off GOTOOLCHAIN=local
d=$(mktemp -d /tmp/rootstage.XXXXXX)
trap 'rm -rf "$d"' EXIT
cp /repo/*.go "$d"/ && rm -f "$d"/verif_contracts.go
for f in "$@"; do cp "$f" "$d"/; done
printf 'module github.com/evanphx/json-patch\n\ngo 1.18\n\nrequire github.com/jessevdk/go-flags v1.6.1\n\nrequire golang.org/x/sys v0.21.0 // indirect\n' > "$d"/go.mod
cp /repo/v5/go.sum "$d"/
cd "$d" && go test -count=1 ${ROOTTEST_ARGS:-} . 2>&1 | tail -${ROOTTEST_TAIL:-15}
