package main

import (
	"fmt"
	"go/constant"
	"go/token"
	"go/types"
	"sort"
	"strconv"
	"strings"

	"golang.org/x/tools/go/ssa"
)

type Region struct {
	Key       string
	Sym       string
	Sort      string // SMT sort of the region term
	Kind      string // field cell elem mapdom mapval maplen global alloc iter ghost
	ValSort   string
	KeySort   string
	StructTag int
	versions  int
}

type Heap map[string]string

func (h Heap) clone() Heap {
	n := make(Heap, len(h))
	for k, v := range h {
		n[k] = v
	}
	return n
}

type Loc struct {
	Kind   string // field cell elem global
	Region *Region
	Ref    string
	Idx    string
	Type   types.Type
	Fresh  bool // ref is an Alloc of this function
}

type Obligation struct {
	witness    *Witness // class W: the recorded input that failed again
	witnessOut witnessResult
	Name       string
	Class      string
	Func       string
	Pos        string
	Props      []string
	PC         string
	Goal       string
	MustBeSat  bool
	Src        string
	nAsserts   int
	nDecls     int
	gen        *Gen
	Extra      []string // extra assertions local to this obligation
	Result     *SolveResult
	File       string
	Known      bool
	Axioms     []string
	Parts      int
	FailedPart string
}

type BState struct {
	heap Heap
	pc   string
	inv  map[string]string // package invariant name -> SMT text of the instance last known to hold on this path
	prev map[string]string // the instance that held before that one (kept as a hypothesis too)
}

// setInv records a newly established instance, keeping the one it replaces.
func (st *BState) setInv(name, t string) {
	if st.inv[name] == t {
		return
	}
	if st.prev == nil {
		st.prev = map[string]string{}
	}
	if old := st.inv[name]; old != "" {
		st.prev[name] = old
	}
	st.inv[name] = t
}

func cloneInv(m map[string]string) map[string]string {
	n := map[string]string{}
	for k, v := range m {
		n[k] = v
	}
	return n
}

type loopInfo struct {
	header     *ssa.BasicBlock
	body       map[*ssa.BasicBlock]bool
	ordinal    int
	spec       *LoopSpec
	entryHeap  Heap
	iterRegion string
	decEntry   string
	headInv    map[string]string
}

type callRecord struct {
	callee   string
	n        int
	pre      Heap
	post     Heap
	results  []string
	resTypes []types.Type
	pcAfter  string
	args     map[string]EnvVal
}

type Gen struct {
	sitePCs      map[string][]string          // call label -> path conditions under which the call is executed (covers clauses)
	siteBlocks   map[string][]*ssa.BasicBlock // call label -> blocks of those calls
	deferred     []func()                     // obligations that need the whole function processed first (covers clauses)
	siteCanaries map[string]bool              // call labels that already have a reachability canary
	eng          *Engine
	fn           *ssa.Function
	con          *Contract
	fname        string
	decls        []string
	declSet      map[string]bool
	asserts      []string
	regions      map[string]*Region
	vals         map[ssa.Value]string
	locs         map[ssa.Value]*Loc
	tuples       map[ssa.Value][]string
	in           map[*ssa.BasicBlock]*BState
	out          map[*ssa.BasicBlock]*BState
	obls         []*Obligation
	strLits      map[string]string
	nfresh       int
	entryHeap    Heap
	props        []string
	loops        map[*ssa.BasicBlock]*loopInfo
	backEdge     map[[2]int]bool
	anchors      map[string]int
	fatal        []string
	imprecise    []string
	debugNames   map[*ssa.BasicBlock]map[string]ssa.Value
	debugAddrs   map[*ssa.BasicBlock]map[string]*ssa.Alloc
	calls        []*callRecord
	callCount    map[string]int
	allocs       map[ssa.Value]bool
	npc          int
	selectProps  map[string]bool
	rangeOf      map[ssa.Value]*ssa.Range
	curInstrPos  token.Pos
	modTargets   map[string][]string // region -> declared target ref terms; "*" wholesale
	hasModifies  bool
	retCount     int
	usedTrusted  map[string]bool
	singleDefs   map[types.Object]ssa.Value
	callGuard    string // guard of the alternative of a dynamic call being processed
	entryAlloc   string
	axioms       []*axiomText
	usedGInv     bool
	defers       []*ssa.Defer
	nq           int
	nqid         int
	touched      map[string]bool
	callOrd      map[string]map[ssa.Instruction]int
}

func (g *Gen) fatalf(f string, a ...interface{}) {
	g.fatal = append(g.fatal, fmt.Sprintf(f, a...))
}

func (g *Gen) declare(name, sort string) {
	if g.declSet[name] {
		return
	}
	g.declSet[name] = true
	g.decls = append(g.decls, fmt.Sprintf("(declare-const %s %s)", name, sort))
}

func (g *Gen) declareFun(name string, args []string, res string) {
	if g.declSet[name] {
		return
	}
	g.declSet[name] = true
	g.decls = append(g.decls, fmt.Sprintf("(declare-fun %s (%s) %s)", name, strings.Join(args, " "), res))
}

func (g *Gen) assert(s string) { g.asserts = append(g.asserts, "(assert "+s+")") }

func (g *Gen) fresh(base, sort string) string {
	g.nfresh++
	n := fmt.Sprintf("%s!%d", base, g.nfresh)
	g.declare(n, sort)
	return n
}

// ---------- regions ----------

func (g *Gen) region(key string, mk func() *Region) *Region {
	if r, ok := g.regions[key]; ok {
		return r
	}
	r := mk()
	r.Key = key
	g.regions[key] = r
	return r
}

func (g *Gen) heapGet(h Heap, r *Region) string {
	if g.touched != nil {
		g.touched[r.Key] = true
	}
	if t, ok := h[r.Key]; ok {
		return t
	}
	// initial version
	n := r.Sym + "@0"
	g.declare(n, r.Sort)
	h[r.Key] = n
	if g.entryHeap != nil {
		if _, ok := g.entryHeap[r.Key]; !ok {
			g.entryHeap[r.Key] = n
		}
	}
	return n
}

func (g *Gen) newVersion(r *Region) string {
	r.versions++
	n := fmt.Sprintf("%s@%d", r.Sym, r.versions)
	g.declare(n, r.Sort)
	return n
}

func (g *Gen) heapSet(h Heap, r *Region, term string) {
	n := g.newVersion(r)
	g.assert(fmt.Sprintf("(= %s %s)", n, term))
	h[r.Key] = n
}

func structName(t types.Type) string {
	return mangle(typeKey(t))
}

func (g *Gen) fieldRegion(st types.Type, idx int) *Region {
	s := st.Underlying().(*types.Struct)
	f := s.Field(idx)
	key := "F." + structName(st) + "." + f.Name()
	return g.region(key, func() *Region {
		vs := sortOf(f.Type())
		return &Region{Sym: "F_" + structName(st) + "_" + f.Name(), Sort: "(Array Int " + vs + ")", Kind: "field", ValSort: vs, KeySort: "Int", StructTag: g.eng.typeTag(st)}
	})
}

func (g *Gen) cellRegion(t types.Type) *Region {
	key := "C." + mangle(typeKey(t.Underlying()))
	return g.region(key, func() *Region {
		vs := sortOf(t)
		return &Region{Sym: "C_" + mangle(typeKey(t.Underlying())), Sort: "(Array Int " + vs + ")", Kind: "cell", ValSort: vs, KeySort: "Int"}
	})
}

func (g *Gen) elemRegion(t types.Type) *Region {
	key := "E." + mangle(typeKey(t.Underlying()))
	return g.region(key, func() *Region {
		vs := sortOf(t)
		return &Region{Sym: "E_" + mangle(typeKey(t.Underlying())), Sort: "(Array Int (Array Int " + vs + "))", Kind: "elem", ValSort: vs, KeySort: "Int"}
	})
}

func (g *Gen) mapRegions(m *types.Map) (dom, val, ln *Region) {
	base := mangle(typeKey(m.Key().Underlying())) + "__" + mangle(typeKey(m.Elem().Underlying()))
	ks, vs := sortOf(m.Key()), sortOf(m.Elem())
	dom = g.region("MD."+base, func() *Region {
		return &Region{Sym: "MD_" + base, Sort: "(Array Int (Array " + ks + " Bool))", Kind: "mapdom", ValSort: "Bool", KeySort: ks}
	})
	val = g.region("MV."+base, func() *Region {
		return &Region{Sym: "MV_" + base, Sort: "(Array Int (Array " + ks + " " + vs + "))", Kind: "mapval", ValSort: vs, KeySort: ks}
	})
	ln = g.region("ML."+base, func() *Region {
		return &Region{Sym: "ML_" + base, Sort: "(Array Int Int)", Kind: "maplen", ValSort: "Int", KeySort: "Int"}
	})
	return
}

func (g *Gen) globalRegion(gl *ssa.Global) *Region {
	key := "G." + gl.Pkg.Pkg.Name() + "." + gl.Name()
	return g.region(key, func() *Region {
		t := gl.Type().(*types.Pointer).Elem()
		return &Region{Sym: "G_" + mangle(gl.Pkg.Pkg.Name()+"."+gl.Name()), Sort: sortOf(t), Kind: "global", ValSort: sortOf(t)}
	})
}

func (g *Gen) allocRegion() *Region {
	return g.region("alloc", func() *Region {
		return &Region{Sym: "alloc", Sort: "(Array Int Bool)", Kind: "alloc", ValSort: "Bool", KeySort: "Int"}
	})
}

func (g *Gen) ghostRegion(name, sort string) *Region {
	return g.region("GH."+name, func() *Region {
		return &Region{Sym: "GH_" + name, Sort: sort, Kind: "ghost", ValSort: sort}
	})
}

// ---------- values ----------

func (g *Gen) strLit(s string) string {
	if s == "" {
		return "str_empty"
	}
	if n, ok := g.strLits[s]; ok {
		return n
	}
	n := fmt.Sprintf("strlit_%d", len(g.strLits)+1)
	g.strLits[s] = n
	g.declare(n, "Str")
	g.assert(fmt.Sprintf("(= (strlen %s) %d)", n, len(s)))
	if len(s) <= 16 {
		for i := 0; i < len(s); i++ {
			g.assert(fmt.Sprintf("(= (strat %s %d) %d)", n, i, s[i]))
		}
	}
	// distinct from all earlier literals
	for o, on := range g.strLits {
		if o != s {
			g.assert(fmt.Sprintf("(not (= %s %s))", n, on))
		}
	}
	return n
}

func smtInt(v int64) string {
	if v < 0 {
		return "(- " + strconv.FormatUint(uint64(-v), 10) + ")"
	}
	return strconv.FormatInt(v, 10)
}

func smtBigInt(s string) string {
	if strings.HasPrefix(s, "-") {
		return "(- " + s[1:] + ")"
	}
	return s
}

func (g *Gen) constTerm(c *ssa.Const) string {
	t := c.Type()
	if c.Value == nil {
		return zeroOf(t)
	}
	switch sortOf(t) {
	case "Bool":
		if constant.BoolVal(c.Value) {
			return "true"
		}
		return "false"
	case "Int":
		return smtBigInt(c.Value.ExactString())
	case "Str":
		return g.strLit(constant.StringVal(c.Value))
	case "F64":
		n := "f64c_" + mangle(c.Value.ExactString())
		g.declare(n, "F64")
		return n
	}
	g.fatalf("unsupported constant %v", c)
	return "0"
}

func (g *Gen) valName(v ssa.Value) string {
	switch v := v.(type) {
	case *ssa.Parameter:
		return "p_" + v.Name()
	case *ssa.FreeVar:
		return "fv_" + v.Name()
	}
	return v.Name()
}

func (g *Gen) val(v ssa.Value) string {
	if t, ok := g.vals[v]; ok {
		return t
	}
	switch v := v.(type) {
	case *ssa.Const:
		return g.constTerm(v)
	case *ssa.Function:
		return strconv.Itoa(g.eng.funcTag(v))
	case *ssa.Global:
		g.fatalf("address of global %s used as a value", v.Name())
		return "0"
	case *ssa.Builtin:
		g.fatalf("builtin %s used as value", v.Name())
		return "0"
	}
	// forward reference (phi operand defined later in RPO: only via back edges) — declare
	n := g.valName(v)
	g.declare(n, sortOf(v.Type()))
	g.vals[v] = n
	return n
}

// def binds the SSA value to a fresh constant equal to term.
func (g *Gen) def(v ssa.Value, term string) {
	n := g.valName(v)
	g.declare(n, sortOf(v.Type()))
	g.vals[v] = n
	g.assert(fmt.Sprintf("(= %s %s)", n, term))
	g.intHint(v, n)
}

// intHint marks an int-typed value as an instantiation candidate for existential witnesses.
func (g *Gen) intHint(v ssa.Value, n string) {
	if b, ok := v.Type().Underlying().(*types.Basic); ok && b.Kind() == types.Int {
		g.assert("(itrig " + n + ")")
	}
}

func (g *Gen) havocVal(v ssa.Value) string {
	n := g.valName(v)
	g.declare(n, sortOf(v.Type()))
	g.vals[v] = n
	g.intHint(v, n)
	return n
}

// typeAssume returns an assumption about a value of Go type t (range, slice shape), or "".
func (g *Gen) typeAssume(term string, t types.Type) string {
	if lo, hi, ok := intRange(t); ok {
		return fmt.Sprintf("(and (<= %s %s) (<= %s %s))", lo, term, term, hi)
	}
	switch t.Underlying().(type) {
	case *types.Slice:
		return sliceWF(term)
	}
	return ""
}

func sliceWF(s string) string {
	return fmt.Sprintf("(and (<= 0 (s-off %[1]s)) (<= 0 (s-len %[1]s)) (<= (s-len %[1]s) (s-cap %[1]s)) (<= (+ (s-off %[1]s) (s-cap %[1]s)) 72057594037927936) (=> (= (s-arr %[1]s) 0) (and (= (s-cap %[1]s) 0) (= (s-off %[1]s) 0))) (>= (s-arr %[1]s) 0))", s)
}

// ---------- path conditions ----------

func (g *Gen) namePC(term string) string {
	g.npc++
	n := fmt.Sprintf("pc!%d", g.npc)
	g.declare(n, "Bool")
	g.assert(fmt.Sprintf("(= %s %s)", n, term))
	return n
}

func (g *Gen) assume(st *BState, fact string) {
	if fact == "" || fact == "true" {
		return
	}
	st.pc = g.namePC(fmt.Sprintf("(and %s %s)", st.pc, fact))
}

// ---------- obligations ----------

func (g *Gen) anchor(pos token.Pos) (string, string) {
	if !pos.IsValid() {
		pos = g.curInstrPos
	}
	line, p := g.eng.sourceLine(pos)
	if line == "" {
		return "?", ""
	}
	a := strings.Join(strings.Fields(line), "")
	if len(a) > 70 {
		a = a[:70]
	}
	return a, fmt.Sprintf("%s:%d", p.Filename, p.Line)
}

func (g *Gen) wantProps(props []string) bool {
	if g.selectProps == nil {
		return true
	}
	for _, p := range props {
		if g.selectProps[p] {
			return true
		}
	}
	return false
}

func (g *Gen) addObl(st *BState, class, anchor, pos string, props []string, goal, src string) *Obligation {
	base := fmt.Sprintf("%s/%s/%s", g.fname, class, anchor)
	g.anchors[base]++
	name := base
	if g.anchors[base] > 1 {
		name = fmt.Sprintf("%s#%d", base, g.anchors[base])
	}
	o := &Obligation{Name: name, Class: class, Func: g.fname, Pos: pos, Props: props, PC: st.pc, Goal: goal, Src: src,
		nAsserts: len(g.asserts), nDecls: len(g.decls), gen: g}
	for _, k := range sortedKeys(st.inv) {
		o.Extra = append(o.Extra, st.inv[k]) // package invariant instances known to hold here
	}
	for _, k := range sortedKeys(st.prev) {
		if st.prev[k] != st.inv[k] {
			o.Extra = append(o.Extra, st.prev[k])
		}
	}
	if g.wantProps(props) {
		g.obls = append(g.obls, o)
	}
	return o
}

// safety obligation at the current instruction; afterwards the goal is assumed.
func (g *Gen) safety(st *BState, class string, pos token.Pos, goal string) {
	if goal == "true" {
		return
	}
	a, p := g.anchor(pos)
	g.addObl(st, class, a, p, g.allProps(), goal, "")
	g.assume(st, goal)
}

// ---------- driver ----------

func NewGen(e *Engine, fn *ssa.Function, con *Contract, selectProps map[string]bool) *Gen {
	g := &Gen{eng: e, fn: fn, con: con, fname: shortFuncName(fn.String()),
		declSet: map[string]bool{}, regions: map[string]*Region{}, vals: map[ssa.Value]string{}, locs: map[ssa.Value]*Loc{},
		tuples: map[ssa.Value][]string{}, in: map[*ssa.BasicBlock]*BState{}, out: map[*ssa.BasicBlock]*BState{},
		strLits: map[string]string{}, loops: map[*ssa.BasicBlock]*loopInfo{}, backEdge: map[[2]int]bool{}, anchors: map[string]int{},
		debugNames: map[*ssa.BasicBlock]map[string]ssa.Value{}, debugAddrs: map[*ssa.BasicBlock]map[string]*ssa.Alloc{}, callCount: map[string]int{}, allocs: map[ssa.Value]bool{},
		selectProps: selectProps, rangeOf: map[ssa.Value]*ssa.Range{}, modTargets: map[string][]string{}, usedTrusted: map[string]bool{}}
	return g
}

func rpo(fn *ssa.Function, backEdge map[[2]int]bool) []*ssa.BasicBlock {
	var order []*ssa.BasicBlock
	seen := map[*ssa.BasicBlock]bool{}
	var dfs func(b *ssa.BasicBlock)
	dfs = func(b *ssa.BasicBlock) {
		seen[b] = true
		for _, s := range b.Succs {
			if backEdge[[2]int{b.Index, s.Index}] {
				continue
			}
			if !seen[s] {
				dfs(s)
			}
		}
		order = append(order, b)
	}
	dfs(fn.Blocks[0])
	for i, j := 0, len(order)-1; i < j; i, j = i+1, j-1 {
		order[i], order[j] = order[j], order[i]
	}
	return order
}

func (g *Gen) findLoops() {
	fn := g.fn
	// back edge: b -> h where h dominates b
	for _, b := range fn.Blocks {
		for _, s := range b.Succs {
			if s.Dominates(b) {
				g.backEdge[[2]int{b.Index, s.Index}] = true
				li := g.loops[s]
				if li == nil {
					li = &loopInfo{header: s, body: map[*ssa.BasicBlock]bool{s: true}}
					g.loops[s] = li
				}
				// natural loop body
				stack := []*ssa.BasicBlock{b}
				for len(stack) > 0 {
					x := stack[len(stack)-1]
					stack = stack[:len(stack)-1]
					if li.body[x] {
						continue
					}
					li.body[x] = true
					for _, p := range x.Preds {
						stack = append(stack, p)
					}
				}
			}
		}
	}
	// ordinals by source position of header's first positioned instruction (fallback: block index)
	var hs []*loopInfo
	for _, li := range g.loops {
		hs = append(hs, li)
	}
	posOf := func(li *loopInfo) token.Pos {
		best := token.NoPos
		for b := range li.body {
			for _, in := range b.Instrs {
				if p := in.Pos(); p.IsValid() && (best == token.NoPos || p < best) {
					best = p
				}
			}
		}
		return best
	}
	sort.Slice(hs, func(i, j int) bool {
		pi, pj := posOf(hs[i]), posOf(hs[j])
		if pi != pj {
			return pi < pj
		}
		return hs[i].header.Index < hs[j].header.Index
	})
	for i, li := range hs {
		li.ordinal = i + 1
		if g.con != nil {
			li.spec = g.con.Loops[li.ordinal]
		}
	}
}

// Generate produces all obligations of the function.
func (g *Gen) Generate() {
	fn := g.fn
	g.findLoops()
	if g.con != nil {
		for n := range g.con.Loops {
			found := false
			for _, li := range g.loops {
				if li.ordinal == n {
					found = true
				}
			}
			if !found {
				g.fatalf("contract names loop %d but the function has %d loops (contract without subject)", n, len(g.loops))
			}
		}
	}
	// entry state
	g.entryHeap = Heap{}
	st := &BState{heap: Heap{}, pc: "true", inv: map[string]string{}}
	g.entryAlloc = g.heapGet(st.heap, g.allocRegion())
	facts := []string{fmt.Sprintf("(not (select %s 0))", g.entryAlloc)}
	for _, p := range fn.Params {
		n := g.valName(p)
		g.declare(n, sortOf(p.Type()))
		g.vals[p] = n
		if a := g.typeAssume(n, p.Type()); a != "" {
			facts = append(facts, a)
		}
		facts = append(facts, g.allocatedFact(st.heap, n, p.Type())...)
	}
	for _, fv := range fn.FreeVars {
		g.fatalf("free variable %s (closure) not supported", fv.Name())
	}
	if len(facts) > 0 {
		g.assume(st, "(and "+strings.Join(facts, " ")+")")
	}
	// invariants of package-level variables (established by the package initialiser; see DESIGN §11)
	if fn.Pkg != nil {
		for _, gi := range g.eng.specs.GInvs {
			if gi.PkgPath != fn.Pkg.Pkg.Path() {
				continue
			}
			env := g.baseEnv(st.heap, st.heap)
			t := g.trBool(gi.Expr, env, &Clause{Kind: "ginv", Name: gi.Name, File: gi.File, Line: gi.Line})
			g.assume(st, t)
			g.usedGInv = true
		}
	}
	// preconditions
	if g.con != nil {
		g.setupModifies(st)
		env := g.baseEnv(st.heap, st.heap)
		for _, r := range g.con.Requires {
			t := g.trBool(r.Expr, env, r)
			g.assume(st, t)
			if r.Assumed {
				g.usedTrusted["assumption "+g.fname+"/"+r.Name+": "+r.Src] = true
			}
		}
		for _, e := range g.con.Ensures {
			if e.Meta != "" {
				g.usedTrusted["meta clause (assumed, not proved) "+g.fname+"/"+e.Name+": "+e.Src] = true
			}
		}
		// vacuity guard: preconditions satisfiable
		if len(g.con.Requires) > 0 {
			o := g.addObl(st, "V", "requires-satisfiable", g.posString(fn.Pos()), g.allProps(), "false", "")
			o.MustBeSat = true
		}
	}
	g.assumePkgInvs(st, g.fn)
	g.in[fn.Blocks[0]] = st
	order := rpo(fn, g.backEdge)
	if g.con != nil {
		for _, cl := range g.con.CallSites {
			cl.Loop = 0
		}
	}
	for _, b := range order {
		if len(g.fatal) > 0 {
			return
		}
		g.processBlock(b)
	}
	if g.con != nil {
		for _, cl := range g.con.CallSites {
			if cl.Loop == 0 {
				g.fatalf("callsite clause %s names call %s, which does not occur (contract without subject)", cl.Name, cl.Label)
			}
		}
		for _, cl := range g.con.Covers {
			for _, lb := range strings.Split(cl.Label, "|") {
				if len(g.siteBlocks[lb]) == 0 {
					g.fatalf("covers clause %s names call %s, which does not occur (contract without subject)", cl.Name, lb)
				}
			}
		}
	}
	for _, f := range g.deferred {
		f()
	}
	g.deferred = nil
}

// noteSite records that the call labelled label is executed in state st (under guard, for one candidate of a
// dynamic call): covers clauses compare the end of an iteration against these path conditions.
func (g *Gen) noteSite(label string, st *BState, in ssa.Instruction, guard string) {
	if g.con == nil || len(g.con.Covers) == 0 {
		return
	}
	if g.sitePCs == nil {
		g.sitePCs = map[string][]string{}
		g.siteBlocks = map[string][]*ssa.BasicBlock{}
	}
	pc := st.pc
	if guard != "" && guard != "true" {
		pc = fmt.Sprintf("(and %s %s)", pc, guard)
	}
	g.sitePCs[label] = append(g.sitePCs[label], pc)
	g.siteBlocks[label] = append(g.siteBlocks[label], in.Block())
}

// innermostLoop: the smallest natural loop whose body contains b (nil: b is in no loop).
func (g *Gen) innermostLoop(b *ssa.BasicBlock) *loopInfo {
	var best *loopInfo
	for _, li := range g.loops {
		if li.body[b] && (best == nil || len(li.body) < len(best.body)) {
			best = li
		}
	}
	return best
}

// deferCovers: `covers LABEL name: cond` -- at the end point described by st (a back edge of loop li leaving block b,
// or a return when li is nil), cond implies that the call LABEL was executed on the way (since the loop head / the
// function entry). Path conditions are definitional, so "was executed" is the disjunction of the call's path conditions.
func (g *Gen) deferCovers(li *loopInfo, b *ssa.BasicBlock, st *BState, pos string) {
	if g.con == nil || len(g.con.Covers) == 0 {
		return
	}
	snap := &BState{heap: st.heap.clone(), pc: st.pc, inv: cloneInv(st.inv), prev: cloneInv(st.prev)}
	for _, cl := range g.con.Covers {
		cl := cl
		g.deferred = append(g.deferred, func() {
			labels := strings.Split(cl.Label, "|") // alternatives: one of these calls is executed
			blocks := g.siteBlocks[labels[0]]
			if len(blocks) == 0 {
				return
			}
			if g.innermostLoop(blocks[0]) != li {
				return
			}
			env := g.baseEnv(snap.heap, g.entryHeap)
			params := env.vars
			env.vars = map[string]EnvVal{}
			g.namedValues(b, env)
			for n, ev := range params {
				if _, ok := env.vars[n]; !ok {
					env.vars[n] = ev
				}
			}
			g.addrNames(b, true, env)
			cond := g.trBool(cl.Expr, env, cl)
			site := "false"
			var pcs []string
			for _, lb := range labels {
				pcs = append(pcs, g.sitePCs[lb]...)
			}
			if len(pcs) == 1 {
				site = pcs[0]
			} else if len(pcs) > 1 {
				site = "(or " + strings.Join(pcs, " ") + ")"
			}
			g.addObl(snap, "A", "covers:"+cl.Label+":"+cl.Name, pos, g.clauseProps(cl, g.allProps()), fmt.Sprintf("(=> %s %s)", cond, site), cl.Src)
		})
	}
}

func (g *Gen) posString(p token.Pos) string {
	pp := g.eng.fset.Position(p)
	return fmt.Sprintf("%s:%d", realPath(pp.Filename), pp.Line)
}

func (g *Gen) allProps() []string {
	m := map[string]bool{"C04": true}
	if g.con != nil {
		for _, c := range g.con.Ensures {
			for _, t := range c.Tags {
				m[t] = true
			}
		}
		for _, l := range g.con.Loops {
			for _, c := range l.Invariants {
				for _, t := range c.Tags {
					m[t] = true
				}
			}
		}
		for _, c := range g.con.CallSites {
			for _, t := range c.Tags {
				m[t] = true
			}
		}
		for _, c := range g.con.Covers {
			for _, t := range c.Tags {
				m[t] = true
			}
		}
		for _, t := range g.con.CalleeTags {
			m[t] = true
		}
	}
	return sortedKeys(m)
}

// allocatedFact: pointers/maps/slices entering the function refer to allocated memory (or are nil).
func (g *Gen) allocatedFact(h Heap, term string, t types.Type) []string {
	al := g.heapGet(h, g.allocRegion())
	switch u := t.Underlying().(type) {
	case *types.Pointer:
		if !isStruct(u.Elem()) && g.ownT(t, "x") != "x" {
			// may point into a struct field (negative address): allocated iff its owner is
			return []string{fmt.Sprintf("(or (>= %s 0) (= %s (paddr (pinv1 %s) (pinv2 %s))))", term, term, term, term), fmt.Sprintf("(=> (not (= %s 0)) (select %s (own %s)))", term, al, term)}
		}
		out := []string{fmt.Sprintf("(>= %s 0)", term), fmt.Sprintf("(=> (not (= %s 0)) (select %s %s))", term, al, term)}
		if isStruct(u.Elem()) {
			// Go's type safety: a non-nil *T points to an object allocated as a T
			out = append(out, fmt.Sprintf("(=> (not (= %s 0)) (= (rtype %s) %d))", term, term, g.eng.typeTag(u.Elem())))
		}
		return out
	case *types.Map:
		return []string{fmt.Sprintf("(>= %s 0)", term), fmt.Sprintf("(=> (not (= %s 0)) (select %s %s))", term, al, term)}
	case *types.Slice:
		return []string{fmt.Sprintf("(=> (not (= (s-arr %s) 0)) (select %s (s-arr %s)))", term, al, term)}
	}
	return nil
}

func (g *Gen) edgeCond(p, b *ssa.BasicBlock) string {
	if len(p.Instrs) == 0 {
		return "true"
	}
	if ifi, ok := p.Instrs[len(p.Instrs)-1].(*ssa.If); ok {
		c := g.val(ifi.Cond)
		if p.Succs[0] == b && p.Succs[1] == b {
			return "true"
		}
		if p.Succs[0] == b {
			return c
		}
		return "(not " + c + ")"
	}
	return "true"
}

func (g *Gen) processBlock(b *ssa.BasicBlock) {
	var st *BState
	if b.Index == 0 {
		st = g.in[b]
	} else {
		// forward predecessors
		type edge struct {
			p    *ssa.BasicBlock
			cond string
			pidx int
		}
		var edges []edge
		for i, p := range b.Preds {
			if g.backEdge[[2]int{p.Index, b.Index}] {
				continue
			}
			po := g.out[p]
			if po == nil {
				continue // unreachable pred
			}
			c := g.edgeCond(p, b)
			et := po.pc
			if c != "true" {
				et = g.namePC(fmt.Sprintf("(and %s %s)", po.pc, c))
			}
			edges = append(edges, edge{p, et, i})
		}
		if len(edges) == 0 {
			return // unreachable
		}
		st = &BState{}
		phiEntry := map[*ssa.Phi]string{}
		if len(edges) == 1 {
			st.pc = edges[0].cond
			st.heap = g.out[edges[0].p].heap.clone()
			st.inv = cloneInv(g.out[edges[0].p].inv)
			st.prev = cloneInv(g.out[edges[0].p].prev)
			for _, in := range b.Instrs {
				if phi, ok := in.(*ssa.Phi); ok {
					phiEntry[phi] = g.val(phi.Edges[edges[0].pidx])
				}
			}
		} else {
			var cs []string
			for _, e := range edges {
				cs = append(cs, e.cond)
			}
			st.pc = g.namePC("(or " + strings.Join(cs, " ") + ")")
			// join invariant knowledge: keep what all predecessors agree on
			st.inv = cloneInv(g.out[edges[0].p].inv)
			for _, e := range edges[1:] {
				for k, v := range st.inv {
					if g.out[e.p].inv[k] != v {
						delete(st.inv, k)
					}
				}
			}
			// what each predecessor knew (possibly about an older heap version: instances are formulas over
			// immutable version names) remains true on the paths through that predecessor
			st.prev = map[string]string{}
			names := map[string]bool{}
			for _, e := range edges {
				for k := range g.out[e.p].inv {
					names[k] = true
				}
				for k := range g.out[e.p].prev {
					names[k] = true
				}
			}
			for _, k := range sortedKeys(names) {
				var hs []string
				for _, e := range edges {
					po := g.out[e.p]
					var fs []string
					if t := po.inv[k]; t != "" {
						fs = append(fs, t)
					}
					if t := po.prev[k]; t != "" && t != po.inv[k] {
						fs = append(fs, t)
					}
					if len(fs) > 0 {
						hs = append(hs, fmt.Sprintf("(=> %s (and %s))", e.cond, strings.Join(fs, " ")))
					}
				}
				if len(hs) > 0 {
					st.prev[k] = "(and " + strings.Join(hs, " ") + ")"
				}
			}
			// join heaps
			st.heap = Heap{}
			keys := map[string]bool{}
			for _, e := range edges {
				for k := range g.out[e.p].heap {
					keys[k] = true
				}
			}
			for _, k := range sortedKeys(keys) {
				r := g.regions[k]
				same := true
				first := g.heapGet(g.out[edges[0].p].heap, r)
				for _, e := range edges[1:] {
					if g.heapGet(g.out[e.p].heap, r) != first {
						same = false
					}
				}
				if same {
					st.heap[k] = first
				} else {
					n := g.newVersion(r)
					for _, e := range edges {
						g.assert(fmt.Sprintf("(=> %s (= %s %s))", e.cond, n, g.heapGet(g.out[e.p].heap, r)))
					}
					st.heap[k] = n
				}
			}
			// a package invariant that holds at the end of every predecessor (over that predecessor's
			// heap) holds over the joined heap, which coincides with one of them on every path
			for _, gi := range g.pkgInvs(g.fn) {
				all := true
				for _, e := range edges {
					po := g.out[e.p]
					if po.inv[gi.Name] == "" || invSig(po.inv[gi.Name]) != invSig(g.invInstance(gi, g.fn, po.heap)) {
						all = false
						break
					}
				}
				if all {
					st.setInv(gi.Name, g.invInstance(gi, g.fn, st.heap))
				}
			}
			for _, in := range b.Instrs {
				if phi, ok := in.(*ssa.Phi); ok {
					n := g.fresh("phi_"+phi.Name(), sortOf(phi.Type()))
					for _, e := range edges {
						g.assert(fmt.Sprintf("(=> %s (= %s %s))", e.cond, n, g.val(phi.Edges[e.pidx])))
					}
					phiEntry[phi] = n
				}
			}
		}
		if li := g.loops[b]; li != nil {
			g.enterLoop(li, st, phiEntry)
		} else {
			for phi, t := range phiEntry {
				g.def(phi, t)
			}
			// canary: the first block of a loop body must be reachable under the invariants (a contradictory
			// invariant, or a contract that makes the loop dead, would make every obligation inside vacuous)
			if *flagCanary && len(b.Preds) == 1 {
				if li := g.loops[b.Preds[0]]; li != nil && li.body[b] {
					a, pos := g.anchorForLoop(li)
					_ = a
					o := g.addObl(st, "V", fmt.Sprintf("loop%d:body-reachable", li.ordinal), pos, g.allProps(), "false", "canary: the loop body can be entered under the invariants")
					o.MustBeSat = true
				}
			}
		}
		g.in[b] = st
	}
	g.debugNames[b] = map[string]ssa.Value{}
	for i, in := range b.Instrs {
		if len(g.fatal) > 0 {
			return
		}
		// fallback position for instructions without one: the next positioned instruction of the block
		g.curInstrPos = token.NoPos
		for _, nx := range b.Instrs[i:] {
			if _, isDbg := nx.(*ssa.DebugRef); isDbg {
				continue
			}
			if nx.Pos().IsValid() {
				g.curInstrPos = nx.Pos()
				break
			}
		}
		g.instr(st, b, in)
	}
	g.out[b] = st
	// back edges leaving this block
	for _, s := range b.Succs {
		if g.backEdge[[2]int{b.Index, s.Index}] {
			g.backEdgeObls(b, s, st)
		}
	}
}

// ---------- loops ----------

func (g *Gen) loopWrites(li *loopInfo) (map[string]bool, map[string][]ssa.Value) {
	ws := map[string]bool{}
	targets := map[string][]ssa.Value{} // region -> objects allocated by this function before the loop that the loop stores into
	for b := range li.body {
		for _, in := range b.Instrs {
			one := map[string]bool{}
			g.eng.instrWrites(g.fn, in, one, nil)
			// instrWrites calls a write "fresh-only" when its target is allocated by this function; for the
			// loop's frame only objects allocated INSIDE the loop are new: a store into something allocated
			// before the loop (an accumulator map, a local buffer) changes that one pre-loop object
			pre := writesPreLoopAlloc(in, li)
			for k, w := range one {
				addWS(ws, k, w)
				if pre != nil && !w && k != "alloc" {
					targets[k] = append(targets[k], pre)
				}
			}
		}
	}
	return ws, targets
}

// writesPreLoopAlloc: does the instruction store through an object that this function allocates outside the loop?
func writesPreLoopAlloc(in ssa.Instruction, li *loopInfo) ssa.Value {
	var roots []ssa.Value
	switch x := in.(type) {
	case *ssa.Store:
		roots = append(roots, x.Addr)
	case *ssa.MapUpdate:
		roots = append(roots, x.Map)
	case ssa.CallInstruction:
		c := x.Common()
		if b, ok := c.Value.(*ssa.Builtin); ok && (b.Name() == "copy" || b.Name() == "append" || b.Name() == "delete" || b.Name() == "clear") && len(c.Args) > 0 {
			roots = append(roots, c.Args[0])
		}
	}
	for _, r := range roots {
		v := r
		for {
			switch y := v.(type) {
			case *ssa.FieldAddr:
				v = y.X
				continue
			case *ssa.IndexAddr:
				v = y.X
				continue
			case *ssa.Slice:
				v = y.X
				continue
			}
			break
		}
		switch y := v.(type) {
		case *ssa.Alloc, *ssa.MakeMap, *ssa.MakeSlice:
			if in2, ok := y.(ssa.Instruction); ok && !li.body[in2.Block()] {
				return y
			}
		}
	}
	return nil
}

func (g *Gen) phiEnvName(phi *ssa.Phi) string {
	c := phi.Comment
	if c == "" {
		c = phi.Name()
	}
	return c
}

func (g *Gen) loopEnv(li *loopInfo, heap Heap, phiVals map[*ssa.Phi]string) *Env {
	env := g.baseEnv(heap, g.entryHeap)
	for _, in := range li.header.Instrs {
		if phi, ok := in.(*ssa.Phi); ok {
			t := phiVals[phi]
			env.vars[g.phiEnvName(phi)] = EnvVal{term: t, ty: VType{Go: phi.Type()}}
			env.vars[phi.Name()] = EnvVal{term: t, ty: VType{Go: phi.Type()}}
		}
	}
	// values defined before the loop and named in the source that dominate the header: the closest
	// dominator wins (a phi named after the variable, or the last DebugRef of the variable in that block)
	g.namedValues(li.header.Idom(), env)
	g.addrNames(li.header, false, env)
	if li.iterRegion != "" {
		env.visited = g.heapGet(heap, g.regions[li.iterRegion])
		env.visitedRegion = g.regions[li.iterRegion]
	}
	env.loopEntry = li.entryHeap
	return env
}

func (g *Gen) findIterRegion(li *loopInfo) {
	for _, in := range li.header.Instrs {
		if nx, ok := in.(*ssa.Next); ok {
			if r, ok := nx.Iter.(*ssa.Range); ok {
				if _, ism := r.X.Type().Underlying().(*types.Map); ism {
					li.iterRegion = "IT." + r.Name()
				}
			}
		}
	}
}

func (g *Gen) enterLoop(li *loopInfo, st *BState, phiEntry map[*ssa.Phi]string) {
	g.findIterRegion(li)
	li.entryHeap = st.heap.clone()
	props := g.allProps()
	a, pos := g.anchorForLoop(li)
	// I.init
	if li.spec != nil {
		env := g.loopEnv(li, st.heap, phiEntry)
		for _, inv := range li.spec.Invariants {
			t := g.trBool(inv.Expr, env, inv)
			g.addObl(st, "I.init", fmt.Sprintf("loop%d:%s", li.ordinal, inv.Name), pos, g.clauseProps(inv, props), t, inv.Src)
		}
	}
	_ = a
	if t := g.autoInv(li, phiEntry); t != "" {
		g.addObl(st, "I.init", fmt.Sprintf("loop%d:auto-bounds", li.ordinal), pos, props, t, "inferred: counter bounds")
	}
	g.checkPkgInvs(st, "I.init", fmt.Sprintf("loop%d:pkginv:", li.ordinal), pos, "true")
	// havoc
	ws, preTargets := g.loopWrites(li)
	preHeap := st.heap.clone()
	lkeys := sortedKeys(ws)
	for i, k := range lkeys {
		if k == "alloc" {
			copy(lkeys[1:i+1], lkeys[:i])
			lkeys[0] = "alloc"
		}
	}
	for _, k := range lkeys {
		r := g.regions[k]
		if r == nil {
			r = g.regionByKey(k)
			if r == nil {
				continue
			}
		}
		old := g.heapGet(st.heap, r)
		n := g.newVersion(r)
		st.heap[k] = n
		if r.Kind == "alloc" {
			g.assume(st, fmt.Sprintf("(and (not (select %s 0)) (forall ((r Int)) (! (=> (select %s r) (select %s r)) :pattern ((select %s r)))))", n, old, n, n))
		} else if !ws[k] && (r.Kind == "field" || r.Kind == "cell" || r.Kind == "elem" || r.Kind == "mapdom" || r.Kind == "mapval" || r.Kind == "maplen") {
			// written only on objects allocated inside the loop, and on the listed objects this function
			// allocated before the loop: everything else allocated before keeps its value
			al := g.heapGet(preHeap, g.allocRegion())
			except := "true"
			var ne []string
			for _, tv := range preTargets[k] {
				if ref := g.allocRefTerm(tv); ref != "" {
					ne = append(ne, fmt.Sprintf("(not (= r %s))", ref))
				}
			}
			if len(ne) > 0 {
				except = "(and " + strings.Join(ne, " ") + ")"
			}
			g.assume(st, fmt.Sprintf("(forall ((r Int)) (! (=> (or (and (select %s %s) %s) %s) (= (select %s r) (select %s r))) :pattern ((select %s r))))", al, g.ownR(r, "r"), except, g.notFreshOf(r, st.heap), n, old, n))
		}
	}
	phiVals := map[*ssa.Phi]string{}
	var facts []string
	for _, in := range li.header.Instrs {
		if phi, ok := in.(*ssa.Phi); ok {
			n := g.havocVal(phi)
			phiVals[phi] = n
			if a := g.typeAssume(n, phi.Type()); a != "" {
				facts = append(facts, a)
			}
			facts = append(facts, g.allocatedFact(st.heap, n, phi.Type())...)
		}
	}
	if len(facts) > 0 {
		g.assume(st, "(and "+strings.Join(facts, " ")+")")
	}
	if t := g.autoInv(li, phiVals); t != "" {
		g.assume(st, t)
	}
	g.assumePkgInvs(st, g.fn)
	li.headInv = cloneInv(st.inv)
	if li.spec != nil {
		env := g.loopEnv(li, st.heap, phiVals)
		for _, inv := range li.spec.Invariants {
			g.assume(st, g.trBool(inv.Expr, env, inv))
		}
		if li.spec.Decreases != nil {
			t, _ := g.tr(li.spec.Decreases, env)
			li.decEntry = g.fresh("dec", "Int")
			g.assert(fmt.Sprintf("(= %s %s)", li.decEntry, t))
		}
		o := g.addObl(st, "V", fmt.Sprintf("loop%d:invariant-satisfiable", li.ordinal), pos, props, "false", "")
		o.MustBeSat = true
	}
}

func (g *Gen) anchorForLoop(li *loopInfo) (string, string) {
	for _, in := range li.header.Instrs {
		if in.Pos().IsValid() {
			return g.anchor(in.Pos())
		}
	}
	for b := range li.body {
		for _, in := range b.Instrs {
			if in.Pos().IsValid() {
				return g.anchor(in.Pos())
			}
		}
	}
	return "?", ""
}

func (g *Gen) clauseProps(c *Clause, def []string) []string {
	if len(c.Tags) > 0 {
		return c.Tags
	}
	return def
}

func (g *Gen) backEdgeObls(b, h *ssa.BasicBlock, st *BState) {
	li := g.loops[h]
	if li == nil {
		return
	}
	cond := g.edgeCond(b, h)
	est := &BState{heap: st.heap, pc: st.pc, inv: cloneInv(st.inv), prev: cloneInv(st.prev)}
	if cond != "true" {
		est.pc = g.namePC(fmt.Sprintf("(and %s %s)", st.pc, cond))
	}
	{
		_, pos := g.anchorForLoop(li)
		g.deferCovers(li, b, est, pos)
		// the loop head assumed the invariant instance over the havocked heap; the back edge must re-establish it
		g.checkPkgInvsAgainst(est, "I.pres", fmt.Sprintf("loop%d:pkginv:", li.ordinal), pos, "true", li.headInv)
	}
	pidx := -1
	for i, p := range h.Preds {
		if p == b {
			pidx = i
		}
	}
	phiVals := map[*ssa.Phi]string{}
	for _, in := range h.Instrs {
		if phi, ok := in.(*ssa.Phi); ok {
			phiVals[phi] = g.val(phi.Edges[pidx])
		}
	}
	_, pos := g.anchorForLoop(li)
	props := g.allProps()
	if t := g.autoInv(li, phiVals); t != "" {
		g.addObl(est, "I.pres", fmt.Sprintf("loop%d:auto-bounds", li.ordinal), pos, props, t, "inferred: counter bounds")
	}
	if li.spec == nil {
		return
	}
	env := g.loopEnv(li, st.heap, phiVals)
	for _, inv := range li.spec.Invariants {
		t := g.trBool(inv.Expr, env, inv)
		g.addObl(est, "I.pres", fmt.Sprintf("loop%d:%s", li.ordinal, inv.Name), pos, g.clauseProps(inv, props), t, inv.Src)
	}
	if li.spec.Decreases != nil {
		t, _ := g.tr(li.spec.Decreases, env)
		g.addObl(est, "T", fmt.Sprintf("loop%d:decreases", li.ordinal), pos, []string{"C04"},
			fmt.Sprintf("(and (>= %s 0) (< %s %s))", li.decEntry, t, li.decEntry), li.spec.DecSrc)
	}
}

func (g *Gen) regionByKey(k string) *Region {
	if r, ok := g.regions[k]; ok {
		return r
	}
	// regions first mentioned by a write set: recreate from the registry of the engine
	if mk, ok := g.eng.regionMakers[k]; ok {
		return mk(g)
	}
	return nil
}

// autoInv: inferred (and proved, like any other invariant) bounds of loop counters.
// For a header phi p = [c on entry, p+k on the back edge] (c, k constants, k > 0): p >= c.
// If the header exits on `p+k < N` (the range-loop shape of go/ssa) also: p == c || p < N.
func (g *Gen) autoInv(li *loopInfo, vals map[*ssa.Phi]string) string {
	var parts []string
	h := li.header
	for _, in := range h.Instrs {
		phi, ok := in.(*ssa.Phi)
		if !ok {
			continue
		}
		if b, ok := phi.Type().Underlying().(*types.Basic); !ok || b.Info()&types.IsInteger == 0 {
			continue
		}
		var c *ssa.Const
		var next *ssa.BinOp
		okShape := true
		for i, p := range h.Preds {
			e := phi.Edges[i]
			if g.backEdge[[2]int{p.Index, h.Index}] {
				bo, ok := e.(*ssa.BinOp)
				if !ok || bo.Op != token.ADD || bo.X != ssa.Value(phi) {
					okShape = false
					break
				}
				if k, ok := constInt(bo.Y); !ok || k <= 0 {
					okShape = false
					break
				}
				if next != nil && next != bo {
					okShape = false
					break
				}
				next = bo
			} else {
				cc, ok := e.(*ssa.Const)
				if !ok || (c != nil && c.Int64() != cc.Int64()) {
					okShape = false
					break
				}
				c = cc
			}
		}
		if !okShape || c == nil || next == nil {
			continue
		}
		pt, ok := vals[phi]
		if !ok {
			continue
		}
		cs := smtInt(c.Int64())
		parts = append(parts, fmt.Sprintf("(>= %s %s)", pt, cs))
		if ifi, ok := h.Instrs[len(h.Instrs)-1].(*ssa.If); ok {
			if cond, ok := ifi.Cond.(*ssa.BinOp); ok && cond.Op == token.LSS && cond.X == ssa.Value(next) {
				if nt, ok := g.vals[cond.Y]; ok {
					parts = append(parts, fmt.Sprintf("(or (= %s %s) (< %s %s))", pt, cs, pt, nt))
				} else if _, isC := cond.Y.(*ssa.Const); isC {
					parts = append(parts, fmt.Sprintf("(or (= %s %s) (< %s %s))", pt, cs, pt, g.val(cond.Y)))
				}
			}
		}
	}
	if len(parts) == 0 {
		return ""
	}
	return "(and " + strings.Join(parts, " ") + ")"
}

// namedValues binds source-level variable names to SSA values, walking up the dominator tree from b.
func (g *Gen) namedValues(b *ssa.BasicBlock, env *Env) {
	seen := map[string]bool{}
	for ; b != nil; b = b.Idom() {
		local := map[string]EnvVal{}
		for _, in := range b.Instrs {
			if phi, ok := in.(*ssa.Phi); ok && phi.Comment != "" {
				if t, ok := g.vals[phi]; ok {
					local[phi.Comment] = EnvVal{term: t, ty: VType{Go: phi.Type()}}
				}
			}
		}
		for n, v := range g.debugNames[b] {
			if t, ok := g.vals[v]; ok {
				local[n] = EnvVal{term: t, ty: VType{Go: v.Type()}}
			}
		}
		for n, ev := range local {
			if prev, ok := env.vars[n]; !ok || (prev.param && !seen[n]) {
				// a parameter that the body reassigns is, at this point, its current value (closest dominator)
				env.vars[n] = ev
			}
			seen[n] = true
		}
	}
}

// addrNames: address-taken locals declared in blocks dominating at (at itself included if self) are named
// through their cell (`*name`; a struct variable by its name), even if some block also has a DebugRef for a
// value loaded from them.
func (g *Gen) addrNames(at *ssa.BasicBlock, self bool, env *Env) {
	for b, names := range g.debugAddrs {
		if (b == at && !self) || !b.Dominates(at) {
			continue
		}
		for n, al := range names {
			ref, ok := g.vals[al]
			if !ok {
				continue
			}
			et := deref(al.Type())
			if isStruct(et) {
				env.vars[n] = EnvVal{term: ref, ty: VType{Go: al.Type()}}
				continue
			}
			if _, isArr := et.Underlying().(*types.Array); isArr {
				continue
			}
			env.vars[n] = EnvVal{term: "0", ty: VType{Go: al.Type()}, loc: &Loc{Kind: "cell", Region: g.cellRegion(et), Ref: ref, Type: et, Fresh: true}}
		}
	}
}

// allocRefTerm: the reference (object, array or map) that an allocation instruction of this function denotes.
func (g *Gen) allocRefTerm(v ssa.Value) string {
	t, ok := g.vals[v]
	if !ok {
		return ""
	}
	if _, isSlice := v.(*ssa.MakeSlice); isSlice {
		return "(s-arr " + t + ")"
	}
	return t
}
