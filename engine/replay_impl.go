package main

import (
	"encoding/json"
	"fmt"
	"os"
	"os/exec"
	"path/filepath"
	"regexp"
	"strings"
	"time"
)

// Witness: a concrete failing input for an obligation, as a Go test body run in-package against the real
// code of /repo's working tree (injected with `go test -overlay`, nothing is written to /repo).
// The test must FAIL (or panic) when the defect is present and PASS when it is absent.
type Witness struct {
	Dir     string `json:"dir"`               // directory under the repository root: "v5", "v5/internal/json", "." (legacy root, staged)
	Package string `json:"package"`           // package clause of the test file
	Imports string `json:"imports,omitempty"` // extra import lines
	Body    string `json:"body"`              // statements of func TestWitness(t *testing.T)
	Input   string `json:"input,omitempty"`   // human-readable description of the failing input
}

type witnessResult struct {
	Reproduced bool
	Output     string
	Cmd        string
}

func runWitness(w *Witness) witnessResult {
	tmp, err := os.MkdirTemp("", "govc-replay-")
	if err != nil {
		return witnessResult{Output: err.Error()}
	}
	defer os.RemoveAll(tmp)
	src := fmt.Sprintf("package %s\n\nimport (\n\t\"testing\"\n%s\n)\n\nfunc TestWitness(t *testing.T) {\n%s\n}\n", w.Package, w.Imports, w.Body)
	tf := filepath.Join(tmp, "zz_witness_test.go")
	if err := os.WriteFile(tf, []byte(src), 0o644); err != nil {
		return witnessResult{Output: err.Error()}
	}
	dir := filepath.Join(*flagRepo, w.Dir)
	cleanup := func() {}
	if w.Dir == "." || w.Dir == "" {
		// legacy root package: staged as a throw-away module
		d, c, err := stageRoot()
		cleanup = c
		if err != nil {
			c()
			return witnessResult{Output: err.Error()}
		}
		dir = d
	}
	defer cleanup()
	ov := map[string]map[string]string{"Replace": {filepath.Join(dir, "zz_witness_test.go"): tf}}
	ob, _ := json.Marshal(ov)
	ovf := filepath.Join(tmp, "overlay.json")
	os.WriteFile(ovf, ob, 0o644)
	args := []string{"test", "-overlay", ovf, "-vet=off", "-count=1", "-timeout", "60s", "-run", "^TestWitness$", "."}
	cmd := exec.Command("go", args...)
	cmd.Dir = dir
	cmd.Env = append(os.Environ(), "GOFLAGS=-mod=mod", "GOPROXY=off", "GOSUMDB=off", "GOTOOLCHAIN=local")
	done := make(chan struct{})
	var out []byte
	go func() { out, _ = cmd.CombinedOutput(); close(done) }()
	select {
	case <-done:
	case <-time.After(120 * time.Second):
		if cmd.Process != nil {
			cmd.Process.Kill()
		}
		<-done
	}
	o := string(out)
	res := witnessResult{Output: truncate(o, 3000), Cmd: "cd " + dir + " && go " + strings.Join(args, " ")}
	// reproduced: the test ran and failed (FAIL / panic); not: build errors, or PASS
	if regexp.MustCompile(`(?m)^(--- FAIL|panic:|FAIL\s)`).MatchString(o) && !strings.Contains(o, "[build failed]") && !strings.Contains(o, "[setup failed]") {
		res.Reproduced = true
	}
	return res
}

// replayObligation: model-based replay. The generator's failed goals are almost always quantified
// (package invariants, array properties), for which the solvers answer `unknown` rather than `sat`;
// a `sat` model over the abstract byte/JSON vocabulary does not determine concrete input bytes. No
// automatic input synthesis is attempted: the replay file carries the obligation, the query and the
// solver output, and the VIOLATION line ends with no-failing-input-found unless a stored witness
// (known_findings.json / contracts/witnesses.json) for this obligation reproduces on the current tree.
func replayObligation(o *Obligation, rf *replayFile) bool {
	rf.ReplayResult = "none"
	for _, w := range loadWitnesses() {
		if w.Obligation == o.Name {
			r := runWitness(&w.Witness)
			rf.ReplayTest = w.Witness.Body
			rf.ReplayCmd = r.Cmd
			rf.ReplayOutput = r.Output
			if r.Reproduced {
				rf.ReplayResult = "confirmed: " + w.Witness.Input
				return true
			}
			rf.ReplayResult = "not-reproduced"
		}
	}
	return false
}

type storedWitness struct {
	Obligation string  `json:"obligation"`
	Witness    Witness `json:"witness"`
}

func loadWitnesses() []storedWitness {
	var ws []storedWitness
	b, err := os.ReadFile(filepath.Join(*flagVerif, "contracts", "witnesses.json"))
	if err != nil {
		return nil
	}
	json.Unmarshal(b, &ws)
	return ws
}
