package main

func replayObligation(o *Obligation, rf *replayFile) bool {
	rf.ReplayResult = "none"
	return false
}
