package main

import "strings"

// Minimal S-expression handling, used to split a goal into independently discharged conjuncts:
//   (and a b)                      -> a, b
//   (=> g (and a b))               -> (=> g a), (=> g b)
//   (forall (xs) (and a b))        -> (forall (xs) a), (forall (xs) b)
//   (forall (xs) (! body :pattern)) is left alone.

type sx struct {
	atom string
	list []*sx
}

func parseSx(s string) *sx {
	pos := 0
	var parse func() *sx
	skip := func() {
		for pos < len(s) && (s[pos] == ' ' || s[pos] == '\n' || s[pos] == '\t') {
			pos++
		}
	}
	parse = func() *sx {
		skip()
		if pos >= len(s) {
			return &sx{atom: ""}
		}
		if s[pos] == '(' {
			pos++
			n := &sx{list: []*sx{}}
			for {
				skip()
				if pos >= len(s) {
					return n
				}
				if s[pos] == ')' {
					pos++
					return n
				}
				n.list = append(n.list, parse())
			}
		}
		start := pos
		if s[pos] == '|' {
			pos++
			for pos < len(s) && s[pos] != '|' {
				pos++
			}
			pos++
			return &sx{atom: s[start:pos]}
		}
		for pos < len(s) && s[pos] != ' ' && s[pos] != '\n' && s[pos] != '\t' && s[pos] != '(' && s[pos] != ')' {
			pos++
		}
		return &sx{atom: s[start:pos]}
	}
	return parse()
}

func (n *sx) String() string {
	if n.list == nil {
		return n.atom
	}
	var sb strings.Builder
	sb.WriteByte('(')
	for i, c := range n.list {
		if i > 0 {
			sb.WriteByte(' ')
		}
		sb.WriteString(c.String())
	}
	sb.WriteByte(')')
	return sb.String()
}

func (n *sx) head() string {
	if n.list != nil && len(n.list) > 0 && n.list[0].list == nil {
		return n.list[0].atom
	}
	return ""
}

func splitGoal(n *sx) []*sx {
	switch n.head() {
	case "and":
		var out []*sx
		for _, c := range n.list[1:] {
			out = append(out, splitGoal(c)...)
		}
		if len(out) == 0 {
			return []*sx{{atom: "true"}}
		}
		return out
	case "=>":
		if len(n.list) == 3 {
			var out []*sx
			for _, c := range splitGoal(n.list[2]) {
				out = append(out, &sx{list: []*sx{{atom: "=>"}, n.list[1], c}})
			}
			return out
		}
	case "forall":
		if len(n.list) == 3 && n.list[2].head() == "!" && len(n.list[2].list) >= 2 {
			// (forall (xs) (! body :pattern ...)): split the body, keep the annotations on each part
			ann := n.list[2].list[2:]
			parts := splitGoal(n.list[2].list[1])
			if len(parts) > 1 {
				var out []*sx
				for _, c := range parts {
					b := &sx{list: append([]*sx{{atom: "!"}, c}, ann...)}
					out = append(out, &sx{list: []*sx{{atom: "forall"}, n.list[1], b}})
				}
				return out
			}
			return []*sx{n}
		}
		if len(n.list) == 3 && n.list[2].head() != "!" {
			var out []*sx
			for _, c := range splitGoal(n.list[2]) {
				out = append(out, &sx{list: []*sx{{atom: "forall"}, n.list[1], c}})
			}
			return out
		}
	}
	return []*sx{n}
}

// splitGoalText returns the conjuncts of a goal (at most max parts; otherwise the goal itself).
func splitGoalText(goal string, max int) []string {
	parts := splitGoal(parseSx(goal))
	if len(parts) <= 1 || len(parts) > max {
		return []string{goal}
	}
	var out []string
	for _, p := range parts {
		out = append(out, p.String())
	}
	return out
}
