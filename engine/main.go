package main

import (
	"context"
	"crypto/sha256"
	"encoding/json"
	"flag"
	"fmt"
	"os"
	"path/filepath"
	"regexp"
	"sort"
	"strings"
	"sync"
	"time"

	"golang.org/x/tools/go/ssa"
)

var (
	flagRepo    = flag.String("repo", "/repo", "repository root")
	flagVerif   = flag.String("verif", "/verif", "verification root")
	flagTimeout = flag.Int("timeout", 30, "per-obligation solver timeout (s)")
	flagKeep    = flag.String("keep", "", "keep SMT files in this directory")
	flagJobs    = flag.Int("j", 6, "parallel obligations (each races three solver processes)")
	flagVerbose = flag.Bool("v", false, "verbose")
	flagCanary  = flag.Bool("canary", false, "add a reachability canary (must-not-prove false) at every return")
	flagOnly    = flag.String("only", "", "regexp: only obligations whose name matches")
)

func usage() {
	fmt.Fprintln(os.Stderr, `usage: govc [flags] check <property> <quick|thorough>
       govc [flags] prove <func-regexp> [property]
       govc [flags] ssa <func-regexp>
       govc [flags] list`)
	os.Exit(2)
}

type target struct {
	name     string
	dir      string
	patterns []string
	staged   bool
}

func main() {
	flag.Parse()
	args := flag.Args()
	if len(args) < 1 {
		usage()
	}
	switch args[0] {
	case "check":
		if len(args) < 3 {
			usage()
		}
		os.Exit(cmdCheck(args[1], args[2]))
	case "prove":
		if len(args) < 2 {
			usage()
		}
		prop := ""
		if len(args) > 2 {
			prop = args[2]
		}
		os.Exit(cmdProve(args[1], prop))
	case "replay":
		if len(args) < 2 {
			usage()
		}
		os.Exit(cmdReplay(args[1]))
	case "ssa":
		if len(args) < 2 {
			usage()
		}
		cmdSSA(args[1])
	default:
		usage()
	}
}

// which program (v5 module or staged root package) serves a property
func programsFor(prop string) []string {
	switch prop {
	case "C18", "C19":
		return []string{"root"}
	case "C04", "C09", "C10", "C12", "C20":
		return []string{"v5", "root"}
	}
	return []string{"v5"}
}

func loadProgram(which string) (*Engine, func(), error) {
	specDir := filepath.Join(*flagVerif, "contracts")
	switch which {
	case "v5":
		e, err := LoadEngine(filepath.Join(*flagRepo, "v5"), []string{"./..."}, []string{specDir})
		return e, func() {}, err
	case "root":
		dir, cleanup, err := stageRoot()
		if err != nil {
			return nil, cleanup, err
		}
		e, err := LoadEngine(dir, []string{"./..."}, []string{specDir})
		return e, cleanup, err
	}
	return nil, func() {}, fmt.Errorf("unknown program %s", which)
}

// stageRoot copies the legacy root package (which has no go.mod) into a throw-away module.
func stageRoot() (string, func(), error) {
	dir, err := os.MkdirTemp("", "govc-root-")
	if err != nil {
		return "", func() {}, err
	}
	stagedRoots = append(stagedRoots, dir)
	cleanup := func() { os.RemoveAll(dir) }
	cp := func(src, dst string) error {
		b, err := os.ReadFile(src)
		if err != nil {
			return err
		}
		if err := os.MkdirAll(filepath.Dir(dst), 0o755); err != nil {
			return err
		}
		return os.WriteFile(dst, b, 0o644)
	}
	files, _ := filepath.Glob(filepath.Join(*flagRepo, "*.go"))
	for _, f := range files {
		if strings.HasSuffix(f, "_test.go") {
			continue
		}
		if err := cp(f, filepath.Join(dir, filepath.Base(f))); err != nil {
			return dir, cleanup, err
		}
	}
	cmdFiles, _ := filepath.Glob(filepath.Join(*flagRepo, "cmd/json-patch/*.go"))
	for _, f := range cmdFiles {
		if strings.HasSuffix(f, "_test.go") {
			continue
		}
		if err := cp(f, filepath.Join(dir, "cmd/json-patch", filepath.Base(f))); err != nil {
			return dir, cleanup, err
		}
	}
	gomod := "module github.com/evanphx/json-patch\n\ngo 1.18\n\nrequire github.com/jessevdk/go-flags v1.6.1\n\nrequire golang.org/x/sys v0.21.0 // indirect\n"
	if err := os.WriteFile(filepath.Join(dir, "go.mod"), []byte(gomod), 0o644); err != nil {
		return dir, cleanup, err
	}
	if b, err := os.ReadFile(filepath.Join(*flagRepo, "v5/go.sum")); err == nil {
		os.WriteFile(filepath.Join(dir, "go.sum"), b, 0o644)
	}
	return dir, cleanup, nil
}

func matchFuncs(e *Engine, re *regexp.Regexp) []*ssa.Function {
	var out []*ssa.Function
	for name, f := range e.allFuncs {
		if e.isTarget(f) && re.MatchString(shortFuncName(name)) {
			out = append(out, f)
		}
	}
	sort.Slice(out, func(i, j int) bool { return out[i].String() < out[j].String() })
	return out
}

func cmdSSA(pat string) {
	re := regexp.MustCompile(pat)
	for _, which := range []string{"v5", "root"} {
		e, cleanup, err := loadProgram(which)
		if err != nil {
			fmt.Fprintln(os.Stderr, err)
			cleanup()
			continue
		}
		for _, f := range matchFuncs(e, re) {
			f.WriteTo(os.Stdout)
			if *flagVerbose {
				ws := e.writeSet(f)
				fmt.Printf("# write set: %v\n", ws)
			}
		}
		cleanup()
	}
}

func generate(e *Engine, f *ssa.Function, sel map[string]bool) *Gen {
	con := e.contractFor(f, "")
	if con != nil && con.Trusted {
		return nil
	}
	if e.isForwarder(f) {
		return nil // a one-call wrapper without a contract: inlined (and so verified) at every call site
	}
	g := NewGen(e, f, con, sel)
	func() {
		defer func() {
			if r := recover(); r != nil {
				if te, ok := r.(trError); ok {
					g.fatalf("%s", te.msg)
					return
				}
				panic(r)
			}
		}()
		g.prepareAxioms()
		g.Generate()
	}()
	return g
}

func solveAll(obls []*Obligation, dir string, timeout int) {
	var wg sync.WaitGroup
	sem := make(chan struct{}, *flagJobs)
	for i, o := range obls {
		if o.Result != nil {
			continue // decided by the generator
		}
		wg.Add(1)
		go func(i int, o *Obligation) {
			defer wg.Done()
			fn := fmt.Sprintf("%04d_%s", i, mangle(o.Name))
			if len(fn) > 150 {
				fn = fn[:150]
			}
			parts := []string{o.Goal}
			if !o.MustBeSat {
				parts = splitGoalText(o.Goal, 24)
			}
			// the conjuncts of a goal are independent queries: solved in parallel (each under the job limit)
			results := make([]SolveResult, len(parts))
			files := make([]string, len(parts))
			var pw sync.WaitGroup
			for pi, part := range parts {
				pw.Add(1)
				go func(pi int, part string) {
					defer pw.Done()
					sem <- struct{}{}
					defer func() { <-sem }()
					pf := fn
					if len(parts) > 1 {
						pf = fmt.Sprintf("%s_part%d", fn, pi+1)
					}
					file, err := writeQuery(dir, pf, o.QueryFor(part))
					if err != nil {
						results[pi] = SolveResult{Status: "error", Output: err.Error()}
						return
					}
					files[pi] = file
					if o.MustBeSat {
						// vacuity guards only need "not unsat": one solver, short time-out
						st, out, el := runSolver(context.Background(), solvers[0], file, 2)
						results[pi] = SolveResult{Status: st, Solver: solvers[0].name, Time: el, Output: out, Outputs: map[string]string{solvers[0].name: truncate(out, 2000)}}
					} else {
						results[pi] = solve(file, timeout)
					}
				}(pi, part)
			}
			pw.Wait()
			var agg *SolveResult
			for pi := range parts {
				r := results[pi]
				if agg == nil {
					rr := r
					agg = &rr
					o.File = files[pi]
				} else {
					if r.Time > agg.Time {
						agg.Time = r.Time
					}
					if r.Status != "unsat" && agg.Status == "unsat" {
						t := agg.Time
						rr := r
						agg = &rr
						agg.Time = t
						o.File = files[pi]
					}
				}
				if r.Status != "unsat" && len(parts) > 1 && o.FailedPart == "" {
					o.FailedPart = parts[pi]
				}
			}
			o.Parts = len(parts)
			o.Result = agg
		}(i, o)
	}
	wg.Wait()
}

func (o *Obligation) ok() bool {
	if o.Result == nil {
		return false
	}
	if o.MustBeSat {
		return o.Result.Status == "sat" || o.Result.Status == "unknown" || o.Result.Status == "timeout"
	}
	return o.Result.Status == "unsat"
}

func cmdProve(pat, prop string) int {
	re := regexp.MustCompile(pat)
	var sel map[string]bool
	if prop != "" {
		sel = map[string]bool{prop: true}
	}
	rc := 0
	for _, which := range []string{"v5", "root"} {
		e, cleanup, err := loadProgram(which)
		if err != nil {
			fmt.Fprintln(os.Stderr, "load", which, err)
			cleanup()
			continue
		}
		dir := *flagKeep
		if dir == "" {
			dir, _ = os.MkdirTemp("", "govc-vc-")
			defer os.RemoveAll(dir)
		}
		for _, f := range matchFuncs(e, re) {
			g := generate(e, f, sel)
			if g == nil {
				fmt.Printf("== %s: trusted, skipped\n", shortFuncName(f.String()))
				continue
			}
			fmt.Printf("== %s: %d obligations\n", g.fname, len(g.obls))
			for _, m := range g.fatal {
				fmt.Printf("   FATAL %s\n", m)
				rc = 2
			}
			if *flagVerbose {
				for _, m := range g.imprecise {
					fmt.Printf("   imprecise: %s\n", m)
				}
			}
			if len(g.fatal) > 0 {
				continue
			}
			obls := g.obls
			if *flagOnly != "" {
				ore := regexp.MustCompile(*flagOnly)
				var keep []*Obligation
				for _, o := range obls {
					if ore.MatchString(o.Name) {
						keep = append(keep, o)
					}
				}
				obls = keep
			}
			solveAll(obls, filepath.Join(dir, mangle(g.fname)), *flagTimeout)
			for _, o := range obls {
				st := "ok  "
				if !o.ok() {
					st = "FAIL"
					rc = 1
				}
				if !o.ok() || *flagVerbose {
					fmt.Printf("   %s %-8s %s [%s %s %.2fs] %s\n", st, o.Class, o.Name, o.Result.Status, o.Result.Solver, o.Result.Time, o.File)
					if !o.ok() && o.FailedPart != "" {
						fmt.Printf("        failed part: %s\n", truncate(o.FailedPart, 700))
					}
				}
			}
		}
		cleanup()
	}
	return rc
}

// ---------- check ----------

type KnownFinding struct {
	Property    string          `json:"property"`
	Obligation  string          `json:"obligation,omitempty"`
	Witness     json.RawMessage `json:"witness,omitempty"`
	Observed    string          `json:"observed,omitempty"`
	WhyNotFixed string          `json:"why_not_fixed,omitempty"`
	Fixed       bool            `json:"fixed,omitempty"`
	Also        []string        `json:"also_properties,omitempty"`
	Commit      string          `json:"commit,omitempty"`
	What        string          `json:"what,omitempty"`
}

func loadKnown() []KnownFinding {
	var k []KnownFinding
	b, err := os.ReadFile(filepath.Join(*flagVerif, "known_findings.json"))
	if err != nil {
		return nil
	}
	if err := json.Unmarshal(b, &k); err != nil {
		fmt.Fprintln(os.Stderr, "known_findings.json:", err)
	}
	return k
}

func fileSHA(path string) string {
	b, err := os.ReadFile(path)
	if err != nil {
		return ""
	}
	return fmt.Sprintf("%x", sha256.Sum256(b))
}

func cmdCheck(prop, tier string) int {
	start := time.Now()
	*flagCanary = true
	timeout := *flagTimeout
	sel := map[string]bool{prop: true}
	if tier == "thorough" {
		// thorough: four times the solver budget, and the selected functions are checked against every clause
		// of their contracts (all properties), not only the clauses tagged with this property
		timeout = 120
		sel = nil
	}
	var all []*Obligation
	var undecided []string
	var functions []string
	trusted := map[string]bool{}
	imprecise := map[string]bool{}
	files := map[string]string{}
	dir := *flagKeep
	if dir == "" {
		d, err := os.MkdirTemp("", "govc-vc-")
		if err != nil {
			fmt.Println("UNDECIDED property=" + prop + " cannot create temp dir")
			return 2
		}
		dir = d
		defer os.RemoveAll(dir)
	}
	var lemmaCount int
	for _, which := range programsFor(prop) {
		e, cleanup, err := loadProgram(which)
		if err != nil {
			cleanup()
			fmt.Printf("UNDECIDED property=%s cannot load %s: %v\n", prop, which, err)
			return 2
		}
		for f := range e.srcFiles {
			files[realPath(f)] = fileSHA(f)
		}
		sc := selectionFor(e, prop, which)
		for _, f := range sc {
			g := generate(e, f, sel)
			if g == nil {
				continue
			}
			if len(g.fatal) > 0 {
				// the function uses something outside the modelled subset: no obligation of it can be discharged
				o := &Obligation{Name: g.fname + "/G/function-out-of-reach", Class: "G", Func: g.fname, Pos: g.posString(f.Pos()), Props: []string{prop},
					Goal: "false", Src: strings.Join(g.fatal, "; "), gen: g,
					Result: &SolveResult{Status: "unknown", Solver: "generator", Output: strings.Join(g.fatal, "; "), Outputs: map[string]string{"generator": strings.Join(g.fatal, "; ")}}}
				all = append(all, o)
				functions = append(functions, g.fname)
				continue
			}

			if len(g.obls) > 0 {
				functions = append(functions, g.fname)
			}
			for t := range g.usedTrusted {
				trusted[t] = true
			}
			for _, m := range g.imprecise {
				imprecise[g.fname+": "+m] = true
			}
			all = append(all, g.obls...)
		}
		// package invariants are monotone in the allocation map
		if len(sc) > 0 {
			pkgs := map[string]*ssa.Function{}
			for _, f := range sc {
				if f.Pkg != nil && e.participates(f) {
					if _, ok := pkgs[f.Pkg.Pkg.Path()]; !ok {
						pkgs[f.Pkg.Pkg.Path()] = f
					}
				}
			}
			for pp, f := range pkgs {
				all = append(all, allocMonotoneLemmas(e, pp, f)...)
			}
		}
		// lemmas
		ls := lemmaObligations(e, prop)
		lemmaCount += len(ls)
		all = append(all, ls...)
		// contracts without subject
		for name, cs := range e.contracts {
			if _, ok := e.allFuncs[name]; !ok {
				for _, c := range cs {
					if c.FromRepo {
						undecided = append(undecided, fmt.Sprintf("contract without subject: %s (%s:%d)", name, c.File, c.Line))
					}
				}
			}
		}
		cleanup()
	}
	if len(undecided) > 0 {
		for _, u := range undecided {
			fmt.Printf("UNDECIDED property=%s %s\n", prop, u)
		}
		return 2
	}
	if *flagOnly != "" {
		ore := regexp.MustCompile(*flagOnly)
		var keep []*Obligation
		for _, o := range all {
			if ore.MatchString(o.Name) {
				keep = append(keep, o)
			}
		}
		all = keep
	}
	if len(all) == 0 {
		fmt.Printf("UNDECIDED property=%s no obligations generated\n", prop)
		return 2
	}
	solveAll(all, dir, timeout)
	if tier == "thorough" && *flagOnly == "" {
		all = append(all, witnessRegression(prop)...)
	}
	return report(prop, tier, all, functions, trusted, imprecise, files, lemmaCount, time.Since(start).Seconds())
}

// selectionFor: the functions whose obligations are generated for a property.
func selectionFor(e *Engine, prop, which string) []*ssa.Function {
	var out []*ssa.Function
	seen := map[*ssa.Function]bool{}
	add := func(f *ssa.Function) {
		if !seen[f] {
			seen[f] = true
			out = append(out, f)
		}
	}
	if prop == "C04" {
		for _, f := range e.allFuncs {
			if !e.isTarget(f) || f.Synthetic != "" {
				continue
			}
			if c04Scope(e, f) {
				add(f)
			}
		}
	}
	for name, cs := range e.contracts {
		f, ok := e.allFuncs[name]
		if !ok || !e.isTarget(f) {
			continue
		}
		for _, c := range cs {
			if c.Trusted {
				continue
			}
			if contractMentions(c, prop) {
				add(f)
			}
		}
	}
	sort.Slice(out, func(i, j int) bool { return out[i].String() < out[j].String() })
	return out
}

func contractMentions(c *Contract, prop string) bool {
	has := func(cl *Clause) bool {
		for _, t := range cl.Tags {
			if t == prop {
				return true
			}
		}
		return false
	}
	for _, cl := range c.Ensures {
		if has(cl) {
			return true
		}
	}
	for _, cl := range c.CallSites {
		if has(cl) {
			return true
		}
	}
	for _, cl := range c.Covers {
		if has(cl) {
			return true
		}
	}
	for _, t := range c.CalleeTags {
		if t == prop {
			return true
		}
	}
	for _, l := range c.Loops {
		for _, cl := range l.Invariants {
			if has(cl) {
				return true
			}
		}
	}
	if (prop == "C09" || prop == "C10") && c.HasMod {
		return true
	}
	return false
}

func lemmaObligations(e *Engine, prop string) []*Obligation {
	var out []*Obligation
	for _, l := range e.specs.Lemmas {
		ok := false
		for _, t := range l.Tags {
			if t == prop {
				ok = true
			}
		}
		if !ok {
			continue
		}
		// a lemma is proved in an empty function context
		var anyFn *ssa.Function
		for _, f := range e.allFuncs {
			if e.isTarget(f) {
				if anyFn == nil || f.String() < anyFn.String() {
					anyFn = f
				}
			}
		}
		g := NewGen(e, anyFn, nil, nil)
		g.fname = "lemma"
		g.entryHeap = Heap{}
		g.prepareAxioms()
		env := &Env{vars: map[string]EnvVal{}, lets: map[string]CExpr{}, heap: Heap{}, old: Heap{}, labels: map[string]*callRecord{}}
		t := g.trBool(l.Expr, env, &Clause{Kind: "lemma", Name: l.Name, File: l.File})
		st := &BState{heap: Heap{}, pc: "true", inv: map[string]string{}}
		o := g.addObl(st, "L", l.Name, l.File, l.Tags, t, l.Src)
		o.Name = "lemma/L/" + l.Name
		if len(g.fatal) > 0 {
			o.Goal = "false"
			o.Src = strings.Join(g.fatal, "; ")
		}
		out = append(out, o)
	}
	return out
}

// cmdReplay re-runs a stored replay: the Go witness test (if any) against /repo's working tree, and the
// stored SMT query through the solvers.
func cmdReplay(path string) int {
	b, err := os.ReadFile(path)
	if err != nil {
		fmt.Println("cannot read replay file:", err)
		return 2
	}
	var rf replayFile
	if err := json.Unmarshal(b, &rf); err != nil {
		fmt.Println("bad replay file:", err)
		return 2
	}
	fmt.Printf("obligation: %s\nclass: %s\nposition: %s\nclause: %s\n", rf.Obligation, rf.Class, rf.Position, rf.Clause)
	rc := 0
	if rf.SMTFile != "" {
		r := solve(rf.SMTFile, *flagTimeout)
		fmt.Printf("solver answer now: %s (%s, %.1fs); recorded: %s\n", r.Status, r.Solver, r.Time, rf.Status)
		if r.Status != "unsat" {
			rc = 1
		}
	}
	for _, w := range loadWitnesses() {
		if w.Obligation == rf.Obligation {
			r := runWitness(&w.Witness)
			fmt.Printf("witness %q on the real code: reproduced=%v\n%s\n", w.Witness.Input, r.Reproduced, r.Output)
			if r.Reproduced {
				rc = 1
			}
		}
	}
	return rc
}

// the legacy root package is analysed from a throw-away copy (it has no go.mod); reports name the real files
var stagedRoots []string

func realPath(p string) string {
	for _, d := range stagedRoots {
		if strings.HasPrefix(p, d+"/") {
			return filepath.Join(*flagRepo, p[len(d)+1:])
		}
	}
	return p
}

// witnessRegression (thorough tier): the recorded input of every repaired finding of this property is run
// again on the real code; it must no longer fail. A failure is reported as a violation with that input.
func witnessRegression(prop string) []*Obligation {
	var out []*Obligation
	for _, kf := range loadKnown() {
		if !kf.Fixed || len(kf.Witness) == 0 {
			continue
		}
		mine := kf.Property == prop
		for _, a := range kf.Also {
			if a == prop {
				mine = true
			}
		}
		if !mine {
			continue
		}
		var w Witness
		if json.Unmarshal(kf.Witness, &w) != nil || w.Body == "" {
			continue
		}
		r := runWitness(&w)
		o := &Obligation{Name: "witness/W/" + kf.Commit + ":" + w.Input, Class: "W", Func: "witness", Pos: "known_findings.json", Props: []string{prop},
			Goal: "true", Src: "the input of the finding repaired by " + kf.Commit + " must not fail again: " + kf.What}
		if r.Reproduced {
			o.Result = &SolveResult{Status: "sat", Solver: "go test", Output: r.Output, Outputs: map[string]string{"go test": r.Output}}
			o.witness = &w
			o.witnessOut = r
		} else {
			o.Result = &SolveResult{Status: "unsat", Solver: "go test", Output: r.Output}
		}
		out = append(out, o)
	}
	return out
}
