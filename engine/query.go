package main

import (
	"fmt"
	"strings"
)

type axiomText struct {
	name string
	text string
	syms map[string]bool
}

// prepareAxioms translates all spec axioms in this generator (before the body is processed).
func (g *Gen) prepareAxioms() {
	for _, ax := range g.eng.specs.Axioms {
		env := &Env{vars: map[string]EnvVal{}, lets: map[string]CExpr{}, heap: Heap{}, old: Heap{}, labels: map[string]*callRecord{}}
		if ax.PkgPath != "" {
			env.pkg = g.eng.typesPkg(ax.PkgPath)
		}
		cl := &Clause{Kind: "axiom", Name: ax.Name, File: ax.File}
		before := len(g.fatal)
		t := g.trBool(ax.Expr, env, cl)
		if len(g.fatal) > before {
			if ax.PkgPath != "" && env.pkg == nil {
				// an axiom about types of a package that is not part of this program
				g.fatal = g.fatal[:before]
				continue
			}
			return
		}
		syms := map[string]bool{}
		for _, s := range symbolsOf(t) {
			if _, ok := g.eng.specs.Fns[s]; ok {
				syms[s] = true
			}
		}
		g.axioms = append(g.axioms, &axiomText{ax.Name, t, syms})
	}
}

// Query builds the SMT-LIB text for an obligation.
func (o *Obligation) Query() string { return o.QueryFor(o.Goal) }

// QueryFor builds the query with the given goal (a conjunct of o.Goal).
func (o *Obligation) QueryFor(goal string) string {
	g := o.gen
	var sb strings.Builder
	pa := paddrOff
	if g.eng.hasEscaping() {
		pa = paddrOn
	}
	sb.WriteString(strings.Replace(smtPrelude, "@@PADDR@@", pa, 1))
	for _, s := range g.eng.specs.Sorts {
		fmt.Fprintf(&sb, "(declare-sort %s 0)\n", s)
	}
	for _, d := range g.decls {
		sb.WriteString(d)
		sb.WriteByte('\n')
	}
	var body strings.Builder
	for _, a := range g.asserts[:o.nAsserts] {
		body.WriteString(a)
		body.WriteByte('\n')
	}
	for _, a := range o.Extra {
		body.WriteString("(assert " + a + ")\n")
	}
	fmt.Fprintf(&body, "(assert %s)\n", o.PC)
	if !o.MustBeSat {
		fmt.Fprintf(&body, "(assert (not %s))\n", goal)
	}
	// relevant axioms
	have := map[string]bool{}
	for _, s := range symbolsOf(body.String()) {
		have[s] = true
	}
	included := map[string]bool{}
	for changed := true; changed; {
		changed = false
		for _, ax := range g.axioms {
			if included[ax.name] {
				continue
			}
			rel := false
			for s := range ax.syms {
				if have[s] {
					rel = true
					break
				}
			}
			if rel {
				included[ax.name] = true
				changed = true
				for s := range ax.syms {
					have[s] = true
				}
				fmt.Fprintf(&sb, "; axiom %s\n(assert %s)\n", ax.name, ax.text)
			}
		}
	}
	sb.WriteString(body.String())
	sb.WriteString("(check-sat)\n(get-model)\n")
	return sb.String()
}
