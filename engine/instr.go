package main

import (
	"fmt"
	"go/token"
	"go/types"
	"sort"
	"strings"

	"golang.org/x/tools/go/ssa"
)

func deref(t types.Type) types.Type {
	if p, ok := t.Underlying().(*types.Pointer); ok {
		return p.Elem()
	}
	return t
}

func isStruct(t types.Type) bool {
	_, ok := t.Underlying().(*types.Struct)
	return ok
}

func (g *Gen) instr(st *BState, b *ssa.BasicBlock, in ssa.Instruction) {
	switch in := in.(type) {
	case *ssa.DebugRef:
		if id, ok := in.Expr.(interface{ String() string }); ok {
			_ = id
		}
		if in.IsAddr {
			// an address-taken local: contracts name its current value as *name
			if obj := in.Object(); obj != nil {
				if _, isVar := obj.(*types.Var); isVar {
					if al, ok := in.X.(*ssa.Alloc); ok {
						if g.debugAddrs[b] == nil {
							g.debugAddrs[b] = map[string]*ssa.Alloc{}
						}
						g.debugAddrs[b][obj.Name()] = al
					}
				}
			}
			return
		}
		if obj := in.Object(); obj != nil {
			if _, isVar := obj.(*types.Var); isVar {
				x := in.X
				if _, isConst := x.(*ssa.Const); isConst {
					// `v := T{...}`: go/ssa records the zero value at the definition and the real value only at
					// later uses; a variable with one defining value is that value wherever it is in scope
					if sv := g.singleDef(obj); sv != nil {
						x = sv
					}
				}
				g.debugNames[b][obj.Name()] = x
			}
		}
	case *ssa.Phi:
		// handled at block entry
	case *ssa.Alloc:
		g.doAlloc(st, in)
	case *ssa.FieldAddr:
		g.doFieldAddr(st, in)
	case *ssa.IndexAddr:
		g.doIndexAddr(st, in)
	case *ssa.UnOp:
		g.doUnOp(st, in)
	case *ssa.BinOp:
		g.doBinOp(st, in)
	case *ssa.Store:
		g.doStore(st, in)
	case *ssa.Call:
		g.doCall(st, in, in.Common(), in)
	case *ssa.Extract:
		tup := g.tuples[in.Tuple]
		if tup == nil || in.Index >= len(tup) {
			g.fatalf("extract from unknown tuple %s", in.Tuple.Name())
			return
		}
		g.vals[in] = tup[in.Index]
	case *ssa.If, *ssa.Jump:
	case *ssa.Return:
		g.doReturn(st, in)
	case *ssa.Panic:
		a, p := g.anchor(in.Pos())
		g.addObl(st, "S.panic", a, p, g.allProps(), "false", "")
		g.assume(st, "false")
	case *ssa.MakeInterface:
		g.def(in, g.box(g.val(in.X), in.X.Type()))
	case *ssa.ChangeInterface:
		g.vals[in] = g.val(in.X)
	case *ssa.ChangeType:
		g.vals[in] = g.val(in.X)
		if l, ok := g.locs[in.X]; ok {
			g.locs[in] = l
		}
	case *ssa.Convert:
		g.doConvert(st, in)
	case *ssa.TypeAssert:
		g.doTypeAssert(st, in)
	case *ssa.Slice:
		g.doSlice(st, in)
	case *ssa.MakeSlice:
		g.doMakeSlice(st, in)
	case *ssa.MakeMap:
		g.doMakeMap(st, in)
	case *ssa.MapUpdate:
		g.doMapUpdate(st, in)
	case *ssa.Lookup:
		g.doLookup(st, in)
	case *ssa.Range:
		g.doRange(st, in)
	case *ssa.Next:
		g.doNext(st, in)
	case *ssa.Defer:
		if in.Call.StaticCallee() == nil || in.Call.IsInvoke() {
			g.fatalf("defer of a dynamic call not supported")
			return
		}
		if b.Index != 0 && !g.dominatesAllRunDefers(b) {
			g.fatalf("conditional defer not supported")
			return
		}
		g.defers = append(g.defers, in)
	case *ssa.RunDefers:
		for i := len(g.defers) - 1; i >= 0; i-- {
			d := g.defers[i]
			g.callStatic(st, d, d.Call.StaticCallee(), d.Call.Args, nil, "true")
		}
	case *ssa.Field:
		g.imprecise = append(g.imprecise, "struct value field read havocked: "+in.String())
		g.havocVal(in)
	case *ssa.Index:
		switch t := in.X.Type().Underlying().(type) {
		case *types.Basic: // s[i] on a string
			x, k := g.val(in.X), g.val(in.Index)
			g.safety(st, "S.idx", in.Pos(), fmt.Sprintf("(and (<= 0 %s) (< %s (strlen %s)))", k, k, x))
			g.def(in, fmt.Sprintf("(strat %s %s)", x, k))
		case *types.Array: // a[i] on an array value: bounds checked, the element itself is not modelled
			k := g.val(in.Index)
			g.safety(st, "S.idx", in.Pos(), fmt.Sprintf("(and (<= 0 %s) (< %s %d))", k, k, t.Len()))
			g.imprecise = append(g.imprecise, "array value index havocked: "+in.String())
			g.havocVal(in)
		default:
			g.fatalf("index on %s", in.X.Type())
		}
	default:
		g.fatalf("unsupported instruction %T: %s", in, in.String())
	}
}

// ---------- allocation ----------

func (g *Gen) freshRef(st *BState, name string) string {
	al := g.allocRegion()
	cur := g.heapGet(st.heap, al)
	g.declare(name, "Int")
	g.assume(st, fmt.Sprintf("(and (> %s 0) (not (select %s %s)))", name, cur, name))
	g.heapSet(st.heap, al, fmt.Sprintf("(store %s %s true)", cur, name))
	return name
}

func (g *Gen) zeroInitStruct(st *BState, ref string, t types.Type) {
	s, ok := t.Underlying().(*types.Struct)
	if !ok {
		return
	}
	var facts []string
	for i := 0; i < s.NumFields(); i++ {
		f := s.Field(i)
		if sortOf(f.Type()) == "Opaque" {
			continue
		}
		if k, esc := g.eng.escapingField(t, i); esc {
			facts = append(facts, fmt.Sprintf("(= (select %s (paddr %s %d)) %s)", g.heapGet(st.heap, g.cellRegion(f.Type())), ref, k, zeroOf(f.Type())))
			continue
		}
		r := g.fieldRegion(t, i)
		facts = append(facts, fmt.Sprintf("(= (select %s %s) %s)", g.heapGet(st.heap, r), ref, zeroOf(f.Type())))
	}
	if len(facts) > 0 {
		g.assume(st, "(and "+strings.Join(facts, " ")+")")
	}
}

// constArray returns a term for the array that maps every index to the zero value of the sort.
func (g *Gen) constArray(keySort, valSort, zero string) string {
	switch valSort {
	case "Int", "Bool":
		return fmt.Sprintf("((as const (Array %s %s)) %s)", keySort, valSort, zero)
	}
	n := "zeroarr_" + mangle(keySort) + "_" + mangle(valSort)
	if !g.declSet[n] {
		g.declare(n, fmt.Sprintf("(Array %s %s)", keySort, valSort))
		g.assert(fmt.Sprintf("(forall ((i %s)) (! (= (select %s i) %s) :pattern ((select %s i))))", keySort, n, zero, n))
	}
	return n
}

func (g *Gen) doAlloc(st *BState, in *ssa.Alloc) {
	t := deref(in.Type())
	n := g.valName(in)
	g.freshRef(st, n)
	g.vals[in] = n
	g.allocs[in] = true
	switch u := t.Underlying().(type) {
	case *types.Struct:
		g.assume(st, fmt.Sprintf("(= (rtype %s) %d)", n, g.eng.typeTag(t)))
		g.zeroInitStruct(st, n, t)
		if typeKey(t) == "bytes.Buffer" {
			if gs, ok := g.eng.ghosts["BufContent"]; ok {
				// a zero bytes.Buffer is empty
				g.declareSpecFn("bempty")
				g.assume(st, fmt.Sprintf("(= (select %s %s) bempty)", g.heapGet(st.heap, g.ghostRegion("BufContent", g.eng.specSort(gs))), n))
			}
		}
	case *types.Array:
		// backing array in the elem region
		g.assume(st, fmt.Sprintf("(= (rtype %s) 0)", n))
		r := g.elemRegion(u.Elem())
		cur := g.heapGet(st.heap, r)
		if sortOf(u.Elem()) != "Opaque" {
			g.assume(st, fmt.Sprintf("(= (select %s %s) %s)", cur, n, g.constArray("Int", sortOf(u.Elem()), zeroOf(u.Elem()))))
		}
	default:
		g.assume(st, fmt.Sprintf("(= (rtype %s) 0)", n))
		r := g.cellRegion(t)
		if sortOf(t) != "Opaque" {
			g.assume(st, fmt.Sprintf("(= (select %s %s) %s)", g.heapGet(st.heap, r), n, zeroOf(t)))
		}
	}
}

func (g *Gen) dominatesAllRunDefers(b *ssa.BasicBlock) bool {
	for _, x := range g.fn.Blocks {
		for _, in := range x.Instrs {
			if _, ok := in.(*ssa.RunDefers); ok && !b.Dominates(x) {
				return false
			}
		}
	}
	return true
}

func (g *Gen) isFreshRef(v ssa.Value) bool {
	return g.allocs[v]
}

// ---------- addresses ----------

func (g *Gen) nilCheck(st *BState, pos token.Pos, ref string, v ssa.Value) {
	if g.allocs[v] {
		return
	}
	g.safety(st, "S.nil", pos, fmt.Sprintf("(not (= %s 0))", ref))
}

func (g *Gen) doFieldAddr(st *BState, in *ssa.FieldAddr) {
	pt := deref(in.X.Type())
	s, ok := pt.Underlying().(*types.Struct)
	if !ok {
		g.fatalf("FieldAddr on non-struct")
		return
	}
	if l, ok := g.locs[in.X]; ok && l.Kind != "" {
		// address of a field of an embedded struct value: not modelled
		g.fatalf("nested struct field address %s", in.String())
		return
	}
	ref := g.val(in.X)
	g.nilCheck(st, in.Pos(), ref, in.X)
	f := s.Field(in.Field)
	if isStruct(f.Type()) {
		// pointer to an embedded struct value: modelled as an injective sub-object reference
		fn := "sub_" + structName(pt) + "_" + f.Name()
		g.declareFun(fn, []string{"Int"}, "Int")
		n := g.valName(in)
		g.declare(n, "Int")
		g.vals[in] = n
		g.assert(fmt.Sprintf("(= %s (%s %s))", n, fn, ref))
		g.imprecise = append(g.imprecise, "embedded struct sub-object "+fn)
		g.assume(st, fmt.Sprintf("(> %s 0)", n))
		return
	}
	if k, esc := g.eng.escapingField(pt, in.Field); esc {
		// the address escapes: the field lives in the cell region of its type at paddr(object, k)
		addr := fmt.Sprintf("(paddr %s %d)", ref, k)
		g.locs[in] = &Loc{Kind: "cell", Region: g.cellRegion(f.Type()), Ref: addr, Type: f.Type(), Fresh: g.allocs[in.X]}
		g.vals[in] = addr
		return
	}
	g.locs[in] = &Loc{Kind: "field", Region: g.fieldRegion(pt, in.Field), Ref: ref, Type: f.Type(), Fresh: g.allocs[in.X]}
}

func (g *Gen) doIndexAddr(st *BState, in *ssa.IndexAddr) {
	idx := g.val(in.Index)
	switch t := in.X.Type().Underlying().(type) {
	case *types.Slice:
		s := g.val(in.X)
		g.safety(st, "S.idx", in.Pos(), fmt.Sprintf("(and (<= 0 %s) (< %s (s-len %s)))", idx, idx, s))
		g.locs[in] = &Loc{Kind: "elem", Region: g.elemRegion(t.Elem()), Ref: fmt.Sprintf("(s-arr %s)", s), Idx: fmt.Sprintf("(at %s %s)", s, idx), Type: t.Elem(), Fresh: false}
	case *types.Pointer:
		at, ok := t.Elem().Underlying().(*types.Array)
		if !ok {
			g.fatalf("IndexAddr on pointer to non-array")
			return
		}
		ref := g.val(in.X)
		g.nilCheck(st, in.Pos(), ref, in.X)
		if c, ok := constInt(in.Index); !ok || c < 0 || c >= at.Len() {
			g.safety(st, "S.idx", in.Pos(), fmt.Sprintf("(and (<= 0 %s) (< %s %d))", idx, idx, at.Len()))
		}
		g.locs[in] = &Loc{Kind: "elem", Region: g.elemRegion(at.Elem()), Ref: ref, Idx: idx, Type: at.Elem(), Fresh: g.allocs[in.X]}
	default:
		g.fatalf("IndexAddr on %s", in.X.Type())
	}
}

// locOf returns the location a pointer value designates.
func (g *Gen) locOf(st *BState, v ssa.Value, pos token.Pos) *Loc {
	if l, ok := g.locs[v]; ok {
		return l
	}
	if gl, ok := v.(*ssa.Global); ok {
		return &Loc{Kind: "global", Region: g.globalRegion(gl), Type: deref(gl.Type())}
	}
	pt := deref(v.Type())
	if isStruct(pt) {
		return &Loc{Kind: "struct", Ref: g.val(v), Type: pt}
	}
	if at, ok := pt.Underlying().(*types.Array); ok {
		_ = at
		return &Loc{Kind: "array", Ref: g.val(v), Type: pt}
	}
	ref := g.val(v)
	g.nilCheck(st, pos, ref, v)
	return &Loc{Kind: "cell", Region: g.cellRegion(pt), Ref: ref, Type: pt, Fresh: g.allocs[v]}
}

func (g *Gen) readLoc(h Heap, l *Loc) string {
	switch l.Kind {
	case "field", "cell":
		return fmt.Sprintf("(select %s %s)", g.heapGet(h, l.Region), l.Ref)
	case "elem":
		return fmt.Sprintf("(select (select %s %s) %s)", g.heapGet(h, l.Region), l.Ref, l.Idx)
	case "global":
		return g.heapGet(h, l.Region)
	}
	g.fatalf("read of unsupported location kind %s", l.Kind)
	return "0"
}

func (g *Gen) writeLoc(st *BState, l *Loc, val string, pos token.Pos) {
	h := st.heap
	switch l.Kind {
	case "field", "cell":
		g.frameCheck(st, l.Region, l.Ref, l.Fresh, pos)
		g.heapSet(h, l.Region, fmt.Sprintf("(store %s %s %s)", g.heapGet(h, l.Region), l.Ref, val))
	case "elem":
		g.frameCheck(st, l.Region, l.Ref, l.Fresh, pos)
		cur := g.heapGet(h, l.Region)
		g.heapSet(h, l.Region, fmt.Sprintf("(store %s %s (store (select %s %s) %s %s))", cur, l.Ref, cur, l.Ref, l.Idx, val))
	case "global":
		g.frameCheck(st, l.Region, "", false, pos)
		g.heapSet(h, l.Region, val)
	default:
		g.fatalf("write to unsupported location kind %s", l.Kind)
	}
}

func (g *Gen) doUnOp(st *BState, in *ssa.UnOp) {
	x := in.X
	switch in.Op {
	case token.MUL:
		l := g.locOf(st, x, in.Pos())
		if l.Kind == "struct" || l.Kind == "array" {
			g.imprecise = append(g.imprecise, "aggregate load havocked: "+in.String())
			g.havocVal(in)
			return
		}
		if sortOf(l.Type) == "Opaque" {
			g.havocVal(in)
			return
		}
		g.def(in, g.readLoc(st.heap, l))
		n := g.vals[in]
		var facts []string
		if a := g.typeAssume(n, in.Type()); a != "" {
			facts = append(facts, a)
		}
		facts = append(facts, g.allocatedFact(st.heap, n, in.Type())...)
		if len(facts) > 0 {
			g.assume(st, "(and "+strings.Join(facts, " ")+")")
		}
	case token.NOT:
		g.def(in, "(not "+g.val(x)+")")
	case token.SUB:
		t := fmt.Sprintf("(- %s)", g.val(x))
		g.arith(st, in, t)
	case token.XOR:
		g.imprecise = append(g.imprecise, "bitwise complement havocked")
		n := g.havocVal(in)
		g.assume(st, g.typeAssume(n, in.Type()))
	default:
		g.fatalf("unsupported unary op %s", in.Op)
	}
}

// arith defines an integer result, with overflow obligation (signed 64-bit) or wrap-around.
func (g *Gen) arith(st *BState, in ssa.Value, term string) {
	t := in.Type()
	lo, hi, ok := intRange(t)
	if !ok {
		g.def(in, term)
		return
	}
	b := t.Underlying().(*types.Basic)
	if isSigned(t) && (b.Kind() == types.Int || b.Kind() == types.Int64) {
		g.def(in, term)
		n := g.vals[in]
		g.safety(st, "O", in.(ssa.Instruction).Pos(), fmt.Sprintf("(and (<= %s %s) (<= %s %s))", lo, n, n, hi))
		return
	}
	m := modulusOf(t)
	if isSigned(t) {
		// wrap into signed range
		half := lo[3 : len(lo)-1]
		g.def(in, fmt.Sprintf("(- (mod (+ %s %s) %s) %s)", term, half, m, half))
	} else {
		g.def(in, fmt.Sprintf("(mod %s %s)", term, m))
	}
}

func constInt(v ssa.Value) (int64, bool) {
	c, ok := v.(*ssa.Const)
	if !ok || c.Value == nil {
		return 0, false
	}
	if b, ok := c.Type().Underlying().(*types.Basic); !ok || b.Info()&types.IsInteger == 0 {
		return 0, false
	}
	return c.Int64(), true
}

func pow2(n int64) string {
	r := "1"
	// compute as decimal string via big shift
	v := uint64(1)
	if n < 63 {
		v <<= uint(n)
		return fmt.Sprintf("%d", v)
	}
	_ = r
	return "18446744073709551616"
}

func (g *Gen) doBinOp(st *BState, in *ssa.BinOp) {
	x, y := g.val(in.X), g.val(in.Y)
	xt := in.X.Type()
	srt := sortOf(xt)
	switch in.Op {
	case token.EQL, token.NEQ:
		var eq string
		if srt == "Slice" {
			// only comparison with nil is legal
			if c, ok := in.Y.(*ssa.Const); ok && c.Value == nil {
				eq = fmt.Sprintf("(= (s-arr %s) 0)", x)
			} else {
				eq = fmt.Sprintf("(= (s-arr %s) 0)", y)
			}
		} else {
			eq = fmt.Sprintf("(= %s %s)", x, y)
		}
		if in.Op == token.NEQ {
			eq = "(not " + eq + ")"
		}
		g.def(in, eq)
	case token.LSS, token.LEQ, token.GTR, token.GEQ:
		op := map[token.Token]string{token.LSS: "<", token.LEQ: "<=", token.GTR: ">", token.GEQ: ">="}[in.Op]
		if srt == "Str" {
			g.declareFun("strlt", []string{"Str", "Str"}, "Bool")
			switch in.Op {
			case token.LSS:
				g.def(in, fmt.Sprintf("(strlt %s %s)", x, y))
			case token.GTR:
				g.def(in, fmt.Sprintf("(strlt %s %s)", y, x))
			case token.LEQ:
				g.def(in, fmt.Sprintf("(not (strlt %s %s))", y, x))
			case token.GEQ:
				g.def(in, fmt.Sprintf("(not (strlt %s %s))", x, y))
			}
			return
		}
		if srt == "F64" {
			g.imprecise = append(g.imprecise, "float comparison havocked")
			g.havocVal(in)
			return
		}
		g.def(in, fmt.Sprintf("(%s %s %s)", op, x, y))
	case token.ADD:
		if srt == "Str" {
			g.declareFun("strcat", []string{"Str", "Str"}, "Str")
			g.def(in, fmt.Sprintf("(strcat %s %s)", x, y))
			n := g.vals[in]
			g.assume(st, fmt.Sprintf("(= (strlen %s) (+ (strlen %s) (strlen %s)))", n, x, y))
			return
		}
		if srt == "F64" {
			g.havocVal(in)
			return
		}
		g.arith(st, in, fmt.Sprintf("(+ %s %s)", x, y))
	case token.SUB:
		if srt == "F64" {
			g.havocVal(in)
			return
		}
		g.arith(st, in, fmt.Sprintf("(- %s %s)", x, y))
	case token.MUL:
		if srt == "F64" {
			g.havocVal(in)
			return
		}
		g.arith(st, in, fmt.Sprintf("(* %s %s)", x, y))
	case token.QUO, token.REM:
		if srt == "F64" {
			g.havocVal(in)
			return
		}
		g.safety(st, "S.div", in.Pos(), fmt.Sprintf("(not (= %s 0))", y))
		// Go truncates toward zero
		q := fmt.Sprintf("(ite (>= %[1]s 0) (ite (> %[2]s 0) (div %[1]s %[2]s) (- (div %[1]s (- %[2]s)))) (ite (> %[2]s 0) (- (div (- %[1]s) %[2]s)) (div (- %[1]s) (- %[2]s))))", x, y)
		if in.Op == token.QUO {
			g.arith(st, in, q)
		} else {
			g.def(in, fmt.Sprintf("(- %s (* %s %s))", x, y, q))
		}
	case token.AND, token.OR, token.XOR, token.SHL, token.SHR, token.AND_NOT:
		if srt == "Bool" {
			g.fatalf("bitwise op on bool")
			return
		}
		c, isc := constInt(in.Y)
		_, _, _ = lo3(xt)
		switch {
		case in.Op == token.SHR && isc && c < 63 && !isSigned(xt):
			g.def(in, fmt.Sprintf("(div %s %s)", x, pow2(c)))
		case in.Op == token.SHR && isc && c < 63:
			g.def(in, fmt.Sprintf("(div %s %s)", x, pow2(c))) // floor division == arithmetic shift
		case in.Op == token.SHL && isc && c < 63:
			g.arith(st, in, fmt.Sprintf("(* %s %s)", x, pow2(c)))
		case in.Op == token.AND && isc && c >= 0 && (c+1)&c == 0 && !isSigned(xt):
			g.def(in, fmt.Sprintf("(mod %s %d)", x, c+1))
		case in.Op == token.AND && isc && c >= 0 && (c+1)&c == 0:
			g.def(in, fmt.Sprintf("(mod %s %d)", x, c+1))
		default:
			fn := "bitop_" + strings.ToLower(in.Op.String())
			fn = map[string]string{"bitop_&": "bitop_and", "bitop_|": "bitop_or", "bitop_^": "bitop_xor", "bitop_<<": "bitop_shl", "bitop_>>": "bitop_shr", "bitop_&^": "bitop_andnot"}[fn]
			g.declareFun(fn, []string{"Int", "Int"}, "Int")
			g.def(in, fmt.Sprintf("(%s %s %s)", fn, x, y))
			g.assume(st, g.typeAssume(g.vals[in], in.Type()))
			g.imprecise = append(g.imprecise, "bit operation abstracted: "+in.String())
		}
	default:
		g.fatalf("unsupported binary op %s", in.Op)
	}
}

func lo3(t types.Type) (string, string, bool) { return intRange(t) }

func (g *Gen) doStore(st *BState, in *ssa.Store) {
	l := g.locOf(st, in.Addr, in.Pos())
	if l.Kind == "struct" || l.Kind == "array" {
		g.fatalf("aggregate store not supported: %s", in.String())
		return
	}
	if sortOf(l.Type) == "Opaque" {
		return
	}
	g.writeLoc(st, l, g.val(in.Val), in.Pos())
}

// ---------- interfaces ----------

func (g *Gen) boxFn(t types.Type) (box, unbox string, tag int) {
	k := mangle(typeKey(t))
	tag = g.eng.typeTag(t)
	box, unbox = "box_"+k, "unbox_"+k
	if !g.declSet[box] {
		s := sortOf(t)
		g.declareFun(box, []string{s}, "Iface")
		g.declareFun(unbox, []string{"Iface"}, s)
		g.assert(fmt.Sprintf("(forall ((x %s)) (! (and (= (%s (%s x)) x) (= (itype (%s x)) %d)) :pattern ((%s x))))", s, unbox, box, box, tag, box))
		g.assert(fmt.Sprintf("(forall ((i Iface)) (! (=> (= (itype i) %d) (= (%s (%s i)) i)) :pattern ((%s i))))", tag, box, unbox, unbox))
	}
	return
}

func (g *Gen) box(term string, t types.Type) string {
	if _, ok := t.Underlying().(*types.Interface); ok {
		return term
	}
	b, _, _ := g.boxFn(t)
	return fmt.Sprintf("(%s %s)", b, term)
}

func (g *Gen) doTypeAssert(st *BState, in *ssa.TypeAssert) {
	x := g.val(in.X)
	at := in.AssertedType
	var okT, valT string
	if _, isIface := at.Underlying().(*types.Interface); isIface {
		// assertion to interface type: succeeds iff dynamic type implements it
		var alts []string
		for _, t := range g.eng.tagTypes {
			if types.Implements(t, at.Underlying().(*types.Interface)) {
				alts = append(alts, fmt.Sprintf("(= (itype %s) %d)", x, g.eng.typeTag(t)))
			}
		}
		n := g.fresh("implok", "Bool")
		if at.Underlying().(*types.Interface).NumMethods() == 0 {
			g.assert(fmt.Sprintf("(= %s (not (= %s nil_iface)))", n, x))
		}
		g.imprecise = append(g.imprecise, "type assertion to interface abstracted")
		okT, valT = n, x
	} else {
		_, unbox, tag := g.boxFn(at)
		okT = fmt.Sprintf("(= (itype %s) %d)", x, tag)
		valT = fmt.Sprintf("(%s %s)", unbox, x)
	}
	if in.CommaOk {
		v := g.fresh(in.Name()+"_v", sortOf(at))
		ok := g.fresh(in.Name()+"_ok", "Bool")
		g.assert(fmt.Sprintf("(= %s %s)", ok, okT))
		g.assert(fmt.Sprintf("(= %s (ite %s %s %s))", v, ok, valT, zeroOf(at)))
		g.tuples[in] = []string{v, ok}
		if a := g.typeAssume(v, at); a != "" {
			g.assume(st, a)
		}
		return
	}
	g.safety(st, "S.assert", in.Pos(), okT)
	g.def(in, valT)
	if a := g.typeAssume(g.vals[in], at); a != "" {
		g.assume(st, a)
	}
}

// ---------- conversions ----------

func isByteSlice(t types.Type) bool {
	s, ok := t.Underlying().(*types.Slice)
	if !ok {
		return false
	}
	b, ok := s.Elem().Underlying().(*types.Basic)
	return ok && b.Kind() == types.Uint8
}

func isString(t types.Type) bool {
	b, ok := t.Underlying().(*types.Basic)
	return ok && b.Info()&types.IsString != 0
}

func (g *Gen) doConvert(st *BState, in *ssa.Convert) {
	from, to := in.X.Type(), in.Type()
	x := g.val(in.X)
	_, _, fi := intRange(from)
	lo, hi, ti := intRange(to)
	switch {
	case fi && ti:
		flo, fhi, _ := intRange(from)
		if rangeWithin(flo, fhi, lo, hi) {
			g.vals[in] = x
		} else {
			m := modulusOf(to)
			if isSigned(to) {
				half := lo[3 : len(lo)-1]
				g.def(in, fmt.Sprintf("(- (mod (+ %s %s) %s) %s)", x, half, m, half))
			} else {
				g.def(in, fmt.Sprintf("(mod %s %s)", x, m))
			}
		}
	case isString(from) && isByteSlice(to):
		// fresh array holding the bytes of the string
		arr := g.freshRef(st, g.valName(in)+"_arr")
		g.assume(st, fmt.Sprintf("(= (rtype %s) 0)", arr)) // not a struct object
		g.assume(st, fmt.Sprintf("(= (rtype %s) 0)", arr)) // not a struct object
		r := g.elemRegion(types.Typ[types.Uint8])
		cont := g.fresh("cont", "(Array Int Int)")
		g.assert(fmt.Sprintf("(forall ((i Int)) (! (=> (and (<= 0 i) (< i (strlen %s))) (= (select %s i) (strat %s i))) :pattern ((select %s i))))", x, cont, x, cont))
		cur := g.heapGet(st.heap, r)
		g.heapSet(st.heap, r, fmt.Sprintf("(store %s %s %s)", cur, arr, cont))
		g.def(in, fmt.Sprintf("(mk-slice %s 0 (strlen %s) (strlen %s))", arr, x, x))
		g.assume(st, fmt.Sprintf("(= (bytesOf %s 0 (strlen %s)) (strbytes %s))", cont, x, x))
	case isByteSlice(from) && isString(to):
		n := g.havocVal(in)
		r := g.elemRegion(types.Typ[types.Uint8])
		cur := g.heapGet(st.heap, r)
		g.assume(st, fmt.Sprintf("(and (= (strlen %[1]s) (s-len %[2]s)) (= (strbytes %[1]s) (bytesOf (select %[3]s (s-arr %[2]s)) (s-off %[2]s) (s-len %[2]s))))", n, x, cur))
		g.assume(st, fmt.Sprintf("(forall ((i Int)) (! (=> (and (<= 0 i) (< i (s-len %[2]s))) (= (strat %[1]s i) (select (select %[3]s (s-arr %[2]s)) (+ (s-off %[2]s) i)))) :pattern ((strat %[1]s i))))", n, x, cur))
	case fi && isString(to):
		// string(rune)
		n := g.havocVal(in)
		g.imprecise = append(g.imprecise, "string(rune) abstracted")
		_ = n
	case sortOf(from) == sortOf(to):
		g.vals[in] = x
	default:
		if sortOf(to) == "F64" || sortOf(from) == "F64" {
			n := g.havocVal(in)
			if a := g.typeAssume(n, to); a != "" {
				g.assume(st, a)
			}
			return
		}
		g.fatalf("unsupported conversion %s -> %s", from, to)
	}
}

func rangeWithin(flo, fhi, lo, hi string) bool {
	v := func(s string) (neg bool, mag string) {
		if strings.HasPrefix(s, "(- ") {
			return true, s[3 : len(s)-1]
		}
		return false, s
	}
	cmp := func(a, b string) int { // compare signed decimal strings
		an, am := v(a)
		bn, bm := v(b)
		if an != bn {
			if an {
				return -1
			}
			return 1
		}
		c := 0
		if len(am) != len(bm) {
			if len(am) < len(bm) {
				c = -1
			} else {
				c = 1
			}
		} else {
			c = strings.Compare(am, bm)
		}
		if an {
			return -c
		}
		return c
	}
	return cmp(flo, lo) >= 0 && cmp(fhi, hi) <= 0
}

// ---------- slices, maps ----------

func (g *Gen) doSlice(st *BState, in *ssa.Slice) {
	x := g.val(in.X)
	lo := "0"
	if in.Low != nil {
		lo = g.val(in.Low)
	}
	switch t := in.X.Type().Underlying().(type) {
	case *types.Slice:
		hi := fmt.Sprintf("(s-len %s)", x)
		if in.High != nil {
			hi = g.val(in.High)
		}
		mx := fmt.Sprintf("(s-cap %s)", x)
		if in.Max != nil {
			mx = g.val(in.Max)
		}
		g.safety(st, "S.slice", in.Pos(), fmt.Sprintf("(and (<= 0 %s) (<= %s %s) (<= %s %s) (<= %s (s-cap %s)))", lo, lo, hi, hi, mx, mx, x))
		g.def(in, fmt.Sprintf("(ite (= (s-arr %[1]s) 0) nil_slice (mk-slice (s-arr %[1]s) (+ (s-off %[1]s) %[2]s) (- %[3]s %[2]s) (- %[4]s %[2]s)))", x, lo, hi, mx))
	case *types.Basic: // string
		hi := fmt.Sprintf("(strlen %s)", x)
		if in.High != nil {
			hi = g.val(in.High)
		}
		g.safety(st, "S.slice", in.Pos(), fmt.Sprintf("(and (<= 0 %s) (<= %s %s) (<= %s (strlen %s)))", lo, lo, hi, hi, x))
		g.declareFun("substr", []string{"Str", "Int", "Int"}, "Str")
		if !g.declSet["substr_ax"] {
			g.declSet["substr_ax"] = true
			g.assert("(forall ((s Str) (a Int) (b Int)) (! (=> (and (<= 0 a) (<= a b) (<= b (strlen s))) (= (strlen (substr s a b)) (- b a))) :pattern ((substr s a b))))")
			g.assert("(forall ((s Str) (a Int) (b Int) (i Int)) (! (=> (and (<= 0 i) (< i (- b a))) (= (strat (substr s a b) i) (strat s (+ a i)))) :pattern ((strat (substr s a b) i))))")
		}
		g.def(in, fmt.Sprintf("(substr %s %s %s)", x, lo, hi))
	case *types.Pointer:
		at, ok := t.Elem().Underlying().(*types.Array)
		if !ok {
			g.fatalf("slice of pointer to non-array")
			return
		}
		n := fmt.Sprintf("%d", at.Len())
		hi := n
		if in.High != nil {
			hi = g.val(in.High)
		}
		mx := n
		if in.Max != nil {
			mx = g.val(in.Max)
		}
		g.nilCheck(st, in.Pos(), x, in.X)
		if in.Low != nil || in.High != nil || in.Max != nil {
			g.safety(st, "S.slice", in.Pos(), fmt.Sprintf("(and (<= 0 %s) (<= %s %s) (<= %s %s) (<= %s %s))", lo, lo, hi, hi, mx, mx, n))
		}
		g.def(in, fmt.Sprintf("(mk-slice %s %s (- %s %s) (- %s %s))", x, lo, hi, lo, mx, lo))
		if g.allocs[in.X] {
			g.allocs[in] = true // slice over a fresh array
		}
	default:
		g.fatalf("slice of %s", in.X.Type())
	}
}

func (g *Gen) doMakeSlice(st *BState, in *ssa.MakeSlice) {
	ln, cp := g.val(in.Len), g.val(in.Cap)
	g.safety(st, "S.make", in.Pos(), fmt.Sprintf("(and (<= 0 %s) (<= %s %s))", ln, ln, cp))
	g.assume(st, fmt.Sprintf("(<= %s 72057594037927936)", cp)) // A-len
	et := in.Type().Underlying().(*types.Slice).Elem()
	arr := g.freshRef(st, g.valName(in)+"_arr")
	g.assume(st, fmt.Sprintf("(= (rtype %s) 0)", arr)) // not a struct object
	r := g.elemRegion(et)
	if sortOf(et) != "Opaque" {
		g.assume(st, fmt.Sprintf("(= (select %s %s) %s)", g.heapGet(st.heap, r), arr, g.constArray("Int", sortOf(et), zeroOf(et))))
	}
	g.def(in, fmt.Sprintf("(mk-slice %s 0 %s %s)", arr, ln, cp))
	g.allocs[in] = true
}

func (g *Gen) doMakeMap(st *BState, in *ssa.MakeMap) {
	mt := in.Type().Underlying().(*types.Map)
	n := g.valName(in)
	g.freshRef(st, n)
	g.assume(st, fmt.Sprintf("(= (rtype %s) 0)", n)) // not a struct object
	g.vals[in] = n
	g.allocs[in] = true
	dom, _, ln := g.mapRegions(mt)
	g.assume(st, fmt.Sprintf("(and (= (select %s %s) ((as const (Array %s Bool)) false)) (= (select %s %s) 0))",
		g.heapGet(st.heap, dom), n, sortOf(mt.Key()), g.heapGet(st.heap, ln), n))
}

func (g *Gen) doMapUpdate(st *BState, in *ssa.MapUpdate) {
	mt := in.Map.Type().Underlying().(*types.Map)
	m, k, v := g.val(in.Map), g.val(in.Key), g.val(in.Value)
	g.safety(st, "S.mapw", in.Pos(), fmt.Sprintf("(not (= %s 0))", m))
	g.storeSiteObls(st, in)
	dom, val, ln := g.mapRegions(mt)
	fresh := g.allocs[in.Map]
	g.frameCheck(st, dom, m, fresh, in.Pos())
	d, vv, l := g.heapGet(st.heap, dom), g.heapGet(st.heap, val), g.heapGet(st.heap, ln)
	g.heapSet(st.heap, ln, fmt.Sprintf("(store %s %s (+ (select %s %s) (ite (select (select %s %s) %s) 0 1)))", l, m, l, m, d, m, k))
	g.heapSet(st.heap, dom, fmt.Sprintf("(store %s %s (store (select %s %s) %s true))", d, m, d, m, k))
	if sortOf(mt.Elem()) != "Opaque" {
		g.heapSet(st.heap, val, fmt.Sprintf("(store %s %s (store (select %s %s) %s %s))", vv, m, vv, m, k, v))
	}
}

func (g *Gen) mapLenFacts(h Heap, mt *types.Map, m string) string {
	dom, _, ln := g.mapRegions(mt)
	d, l := g.heapGet(h, dom), g.heapGet(h, ln)
	ks := sortOf(mt.Key())
	// len >= 0; len == 0 <=> empty ; nil map is empty
	return fmt.Sprintf("(and (>= (select %[1]s %[3]s) 0) (<= (select %[1]s %[3]s) 72057594037927936) (=> (= (select %[1]s %[3]s) 0) (forall ((k %[4]s)) (! (not (select (select %[2]s %[3]s) k)) :pattern ((select (select %[2]s %[3]s) k))))) (forall ((k %[4]s)) (! (=> (select (select %[2]s %[3]s) k) (> (select %[1]s %[3]s) 0)) :pattern ((select (select %[2]s %[3]s) k)))))", l, d, m, ks)
}

func (g *Gen) doLookup(st *BState, in *ssa.Lookup) {
	x, k := g.val(in.X), g.val(in.Index)
	switch t := in.X.Type().Underlying().(type) {
	case *types.Map:
		dom, val, _ := g.mapRegions(t)
		d, v := g.heapGet(st.heap, dom), g.heapGet(st.heap, val)
		okT := fmt.Sprintf("(and (not (= %s 0)) (select (select %s %s) %s))", x, d, x, k)
		var valT string
		if sortOf(t.Elem()) == "Opaque" {
			valT = "opaque_zero"
		} else {
			valT = fmt.Sprintf("(ite %s (select (select %s %s) %s) %s)", okT, v, x, k, zeroOf(t.Elem()))
		}
		if in.CommaOk {
			vn := g.fresh(in.Name()+"_v", sortOf(t.Elem()))
			on := g.fresh(in.Name()+"_ok", "Bool")
			g.assert(fmt.Sprintf("(= %s %s)", on, okT))
			g.assert(fmt.Sprintf("(= %s %s)", vn, valT))
			g.tuples[in] = []string{vn, on}
			var facts []string
			if a := g.typeAssume(vn, t.Elem()); a != "" {
				facts = append(facts, a)
			}
			facts = append(facts, g.allocatedFact(st.heap, vn, t.Elem())...)
			if len(facts) > 0 {
				g.assume(st, "(and "+strings.Join(facts, " ")+")")
			}
		} else {
			g.def(in, valT)
			n := g.vals[in]
			var facts []string
			if a := g.typeAssume(n, t.Elem()); a != "" {
				facts = append(facts, a)
			}
			facts = append(facts, g.allocatedFact(st.heap, n, t.Elem())...)
			if len(facts) > 0 {
				g.assume(st, "(and "+strings.Join(facts, " ")+")")
			}
		}
	case *types.Basic: // string index
		g.safety(st, "S.idx", in.Pos(), fmt.Sprintf("(and (<= 0 %s) (< %s (strlen %s)))", k, k, x))
		g.def(in, fmt.Sprintf("(strat %s %s)", x, k))
	default:
		g.fatalf("lookup on %s", in.X.Type())
	}
}

func (g *Gen) doRange(st *BState, in *ssa.Range) {
	switch t := in.X.Type().Underlying().(type) {
	case *types.Map:
		ks := sortOf(t.Key())
		r := g.region("IT."+in.Name(), func() *Region {
			return &Region{Sym: "IT_" + in.Name(), Sort: "(Array " + ks + " Bool)", Kind: "iter", ValSort: "Bool", KeySort: ks}
		})
		g.heapSet(st.heap, r, fmt.Sprintf("((as const (Array %s Bool)) false)", ks))
		g.vals[in] = "0"
	default:
		g.fatalf("range over %s not supported", in.X.Type())
	}
}

func (g *Gen) doNext(st *BState, in *ssa.Next) {
	rg, ok := in.Iter.(*ssa.Range)
	if !ok {
		g.fatalf("next on non-range")
		return
	}
	mt, ok := rg.X.Type().Underlying().(*types.Map)
	if !ok {
		g.fatalf("next over non-map")
		return
	}
	m := g.val(rg.X)
	it := g.regions["IT."+rg.Name()]
	dom, val, _ := g.mapRegions(mt)
	d, v, vis := g.heapGet(st.heap, dom), g.heapGet(st.heap, val), g.heapGet(st.heap, it)
	okN := g.fresh(in.Name()+"_ok", "Bool")
	kN := g.fresh(in.Name()+"_k", sortOf(mt.Key()))
	vN := g.fresh(in.Name()+"_v", sortOf(mt.Elem()))
	ks := sortOf(mt.Key())
	inDom := func(k string) string {
		return fmt.Sprintf("(and (not (= %s 0)) (select (select %s %s) %s))", m, d, m, k)
	}
	facts := []string{
		fmt.Sprintf("(=> %s (and %s (not (select %s %s))))", okN, inDom(kN), vis, kN),
		fmt.Sprintf("(=> (not %s) (forall ((k %s)) (! (=> %s (select %s k)) :pattern ((select (select %s %s) k)) :pattern ((select %s k)))))", okN, ks, inDom("k"), vis, d, m, vis),
	}
	if sortOf(mt.Elem()) != "Opaque" {
		facts = append(facts, fmt.Sprintf("(=> %s (= %s (select (select %s %s) %s)))", okN, vN, v, m, kN))
	}
	if a := g.typeAssume(vN, mt.Elem()); a != "" {
		facts = append(facts, a)
	}
	facts = append(facts, g.allocatedFact(st.heap, vN, mt.Elem())...)
	g.assume(st, "(and "+strings.Join(facts, " ")+")")
	g.heapSet(st.heap, it, fmt.Sprintf("(ite %s (store %s %s true) %s)", okN, vis, kN, vis))
	g.tuples[in] = []string{okN, kN, vN}
}

// singleDef: the only non-constant SSA value the function's debug information ever associates with a
// variable (nil if there are several, i.e. the variable is reassigned).
func (g *Gen) singleDef(obj types.Object) ssa.Value {
	if g.singleDefs == nil {
		g.singleDefs = map[types.Object]ssa.Value{}
		multi := map[types.Object]bool{}
		for _, b := range g.fn.Blocks {
			for _, in := range b.Instrs {
				d, ok := in.(*ssa.DebugRef)
				if !ok || d.IsAddr || d.Object() == nil {
					continue
				}
				if _, c := d.X.(*ssa.Const); c {
					continue
				}
				o := d.Object()
				if prev, ok := g.singleDefs[o]; ok && prev != d.X {
					multi[o] = true
				}
				g.singleDefs[o] = d.X
			}
		}
		for o := range multi {
			delete(g.singleDefs, o)
		}
	}
	return g.singleDefs[obj]
}

// storeSiteObls: call-site style clauses on map stores `m[k] = v` (label mapstore#N, N by source order):
// the clause must hold just before the store, over the function's locals and arg_map, arg_key, arg_val.
func (g *Gen) storeSiteObls(st *BState, in *ssa.MapUpdate) {
	if g.con == nil || (len(g.con.CallSites) == 0 && len(g.con.Covers) == 0) {
		return
	}
	type site struct {
		in  ssa.Instruction
		pos token.Pos
	}
	var sites []site
	for _, b := range g.fn.Blocks {
		for _, x := range b.Instrs {
			if mu, ok := x.(*ssa.MapUpdate); ok {
				sites = append(sites, site{mu, mu.Pos()})
			}
		}
	}
	sort.SliceStable(sites, func(i, j int) bool { return sites[i].pos < sites[j].pos })
	n := 0
	for i, s := range sites {
		if s.in == ssa.Instruction(in) {
			n = i + 1
		}
	}
	label := fmt.Sprintf("mapstore#%d", n)
	g.noteSite(label, st, in, "")
	a, pos := g.anchor(in.Pos())
	for _, cl := range g.con.CallSites {
		if cl.Label != label {
			continue
		}
		cl.Loop = 1 // seen
		g.siteCanary(st, label, pos)
		env := g.baseEnv(st.heap, g.entryHeap)
		params := env.vars
		env.vars = map[string]EnvVal{}
		g.namedValues(in.Block(), env)
		for k, ev := range params {
			if _, ok := env.vars[k]; !ok {
				env.vars[k] = ev
			}
		}
		g.addrNames(in.Block(), true, env)
		env.vars["arg_map"] = EnvVal{term: g.val(in.Map), ty: VType{Go: in.Map.Type()}}
		env.vars["arg_key"] = EnvVal{term: g.val(in.Key), ty: VType{Go: in.Key.Type()}}
		env.vars["arg_val"] = EnvVal{term: g.val(in.Value), ty: VType{Go: in.Value.Type()}}
		t := g.trBool(cl.Expr, env, cl)
		g.addObl(st, "A", a+":"+cl.Name, pos, g.clauseProps(cl, g.allProps()), t, cl.Src)
	}
}
