package main

// Translation of contract expressions to SMT terms.

import (
	"fmt"
	"go/constant"
	"go/types"
	"strconv"
	"strings"

	"golang.org/x/tools/go/ssa"
)

type VType struct {
	Go    types.Type
	Sort  string // SMT sort for spec-typed values
	IsNil bool
}

func (v VType) sort() string {
	if v.Go != nil {
		return sortOf(v.Go)
	}
	return v.Sort
}

type EnvVal struct {
	term  string
	ty    VType
	loc   *Loc
	boxed string
	param bool // the entry value of a parameter (a reassigned parameter is superseded by its current value)
}

type Env struct {
	vars          map[string]EnvVal
	lets          map[string]CExpr
	heap          Heap
	old           Heap
	loopEntry     Heap
	labels        map[string]*callRecord
	pkg           *types.Package
	callee        *ssa.Function
	visited       string
	visitedRegion *Region
	clause        *Clause
	letDepth      int
}

func (g *Gen) baseEnv(heap, old Heap) *Env {
	env := &Env{vars: map[string]EnvVal{}, lets: map[string]CExpr{}, heap: heap, old: old, labels: map[string]*callRecord{}}
	if g.fn.Pkg != nil {
		env.pkg = g.fn.Pkg.Pkg
	}
	for _, p := range g.fn.Params {
		env.vars[p.Name()] = EnvVal{term: g.vals[p], ty: VType{Go: p.Type()}, param: true}
	}
	return env
}

type trError struct{ msg string }

func (g *Gen) trBool(e CExpr, env *Env, cl *Clause) (res string) {
	env.clause = cl
	defer func() {
		if r := recover(); r != nil {
			if te, ok := r.(trError); ok {
				where := ""
				if cl != nil {
					where = fmt.Sprintf("%s:%d %s %s: ", cl.File, cl.Line, cl.Kind, cl.Name)
				}
				g.fatalf("%s%s", where, te.msg)
				res = "true"
				return
			}
			panic(r)
		}
	}()
	t, ty := g.tr(e, env)
	if ty.sort() != "Bool" {
		panic(trError{"clause is not boolean: " + cexprString(e)})
	}
	return t
}

func trFail(f string, a ...interface{}) { panic(trError{fmt.Sprintf(f, a...)}) }

var goInt = VType{Go: types.Typ[types.Int]}
var goBool = VType{Go: types.Typ[types.Bool]}
var goString = VType{Go: types.Typ[types.String]}

func (g *Gen) tr(e CExpr, env *Env) (string, VType) {
	switch e := e.(type) {
	case *CInt:
		return smtBigInt(e.V), goInt
	case *CStr:
		return g.strLit(e.V), goString
	case *CIdent:
		return g.trIdent(e.Name, env)
	case *CUnary:
		switch e.Op {
		case "!":
			t, _ := g.tr(e.X, env)
			return "(not " + t + ")", goBool
		case "-":
			t, ty := g.tr(e.X, env)
			return "(- " + t + ")", ty
		case "&":
			// address of a struct field whose address the program takes (paddr encoding)
			f, ok := e.X.(*CField)
			if !ok {
				trFail("& of %s: only fields", cexprString(e.X))
			}
			x, xt := g.tr(f.X, env)
			if xt.Go == nil {
				trFail("& of field of %s", cexprString(f.X))
			}
			st := deref(xt.Go)
			sT, ok := st.Underlying().(*types.Struct)
			if !ok {
				trFail("& of field of non-struct %s", cexprString(f.X))
			}
			for i := 0; i < sT.NumFields(); i++ {
				if sT.Field(i).Name() == f.Name {
					k, esc := g.eng.escapingField(st, i)
					if !esc {
						trFail("&%s: the program never takes this field's address", cexprString(e.X))
					}
					return fmt.Sprintf("(paddr %s %d)", x, k), VType{Go: types.NewPointer(sT.Field(i).Type())}
				}
			}
			trFail("no field %s", f.Name)
		case "*":
			if id, ok := e.X.(*CIdent); ok {
				if ev, ok := env.vars[id.Name]; ok && ev.loc != nil {
					return g.readLoc(env.heap, ev.loc), VType{Go: ev.loc.Type}
				}
			}
			t, ty := g.tr(e.X, env)
			if ty.Go == nil {
				trFail("deref of non-pointer %s", cexprString(e.X))
			}
			pt := deref(ty.Go)
			if isStruct(pt) {
				trFail("deref of struct pointer %s", cexprString(e.X))
			}
			return fmt.Sprintf("(select %s %s)", g.heapGet(env.heap, g.cellRegion(pt)), t), VType{Go: pt}
		}
	case *CBinary:
		return g.trBinary(e, env)
	case *CCond:
		c, _ := g.tr(e.C, env)
		a, at := g.tr(e.A, env)
		b, bt := g.tr(e.B, env)
		if at.IsNil {
			a, at = zeroOf(bt.Go), bt
		}
		if bt.IsNil {
			b = zeroOf(at.Go)
		}
		return fmt.Sprintf("(ite %s %s %s)", c, a, b), at
	case *CQuant:
		return g.trQuant(e, env)
	case *CField:
		return g.trField(e, env)
	case *CIndex:
		x, xt := g.tr(e.X, env)
		i, _ := g.tr(e.I, env)
		if xt.Go != nil {
			switch u := xt.Go.Underlying().(type) {
			case *types.Slice:
				r := g.elemRegion(u.Elem())
				return fmt.Sprintf("(select (select %s (s-arr %s)) (at %s %s))", g.heapGet(env.heap, r), x, x, i), VType{Go: u.Elem()}
			case *types.Map:
				_, val, _ := g.mapRegions(u)
				return fmt.Sprintf("(select (select %s %s) %s)", g.heapGet(env.heap, val), x, i), VType{Go: u.Elem()}
			case *types.Basic:
				return fmt.Sprintf("(strat %s %s)", x, i), VType{Go: types.Typ[types.Uint8]}
			}
		}
		if xt.Sort == "Bytes" {
			return fmt.Sprintf("(bat %s %s)", x, i), goInt
		}
		if strings.HasPrefix(xt.Sort, "(Array ") {
			_, vs := arraySorts(xt.Sort)
			return fmt.Sprintf("(select %s %s)", x, i), VType{Sort: vs}
		}
		trFail("index of %s", cexprString(e.X))
	case *CSlice:
		x, xt := g.tr(e.X, env)
		if xt.Go == nil {
			trFail("slice expression on spec value")
		}
		lo := "0"
		if e.Lo != nil {
			lo, _ = g.tr(e.Lo, env)
		}
		switch xt.Go.Underlying().(type) {
		case *types.Slice:
			hi := fmt.Sprintf("(s-len %s)", x)
			if e.Hi != nil {
				hi, _ = g.tr(e.Hi, env)
			}
			return fmt.Sprintf("(mk-slice (s-arr %[1]s) (+ (s-off %[1]s) %[2]s) (- %[3]s %[2]s) (- (s-cap %[1]s) %[2]s))", x, lo, hi), xt
		case *types.Basic:
			hi := fmt.Sprintf("(strlen %s)", x)
			if e.Hi != nil {
				hi, _ = g.tr(e.Hi, env)
			}
			g.declareFun("substr", []string{"Str", "Int", "Int"}, "Str")
			return fmt.Sprintf("(substr %s %s %s)", x, lo, hi), xt
		}
		trFail("slice of %s", cexprString(e.X))
	case *CCall:
		return g.trCall(e, env)
	}
	trFail("cannot translate %s", cexprString(e))
	return "", VType{}
}

func arraySorts(s string) (string, string) {
	// "(Array K V)" with K,V possibly parenthesised
	inner := strings.TrimSuffix(strings.TrimPrefix(s, "(Array "), ")")
	depth := 0
	for i, c := range inner {
		switch c {
		case '(':
			depth++
		case ')':
			depth--
		case ' ':
			if depth == 0 {
				return inner[:i], inner[i+1:]
			}
		}
	}
	return inner, ""
}

func (g *Gen) trIdent(name string, env *Env) (string, VType) {
	switch name {
	case "true":
		return "true", goBool
	case "false":
		return "false", goBool
	case "nil":
		return "0", VType{IsNil: true}
	}
	if ev, ok := env.vars[name]; ok {
		if ev.loc != nil && ev.term == "0" {
			trFail("%s is an address; use *%s", name, name)
		}
		return ev.term, ev.ty
	}
	if le, ok := env.lets[name]; ok {
		if env.letDepth > 20 {
			trFail("let recursion")
		}
		env.letDepth++
		defer func() { env.letDepth-- }()
		return g.tr(le, env)
	}
	if c, ok := g.eng.specs.Consts[name]; ok {
		return g.specConst(c)
	}
	if gr, ok := g.eng.ghosts[name]; ok {
		srt := g.eng.specSort(gr)
		return g.heapGet(env.heap, g.ghostRegion(name, srt)), VType{Sort: srt}
	}
	// package-level Go objects
	if env.pkg != nil {
		if obj := env.pkg.Scope().Lookup(name); obj != nil {
			return g.trObject(obj, env)
		}
	}
	trFail("unknown identifier %s", name)
	return "", VType{}
}

func (g *Gen) trObject(obj types.Object, env *Env) (string, VType) {
	switch o := obj.(type) {
	case *types.Const:
		switch sortOf(o.Type()) {
		case "Int":
			return smtBigInt(o.Val().ExactString()), VType{Go: o.Type()}
		case "Bool":
			return strconv.FormatBool(constant.BoolVal(o.Val())), VType{Go: o.Type()}
		case "Str":
			return g.strLit(constant.StringVal(o.Val())), VType{Go: o.Type()}
		}
	case *types.Var:
		if sp := g.eng.prog.Package(o.Pkg()); sp != nil {
			if gl, ok := sp.Members[o.Name()].(*ssa.Global); ok {
				return g.heapGet(env.heap, g.globalRegion(gl)), VType{Go: o.Type()}
			}
		}
	case *types.Func:
		if sp := g.eng.prog.Package(o.Pkg()); sp != nil {
			if f, ok := sp.Members[o.Name()].(*ssa.Function); ok {
				return strconv.Itoa(g.eng.funcTag(f)), VType{Go: o.Type()}
			}
		}
	}
	trFail("unsupported package-level object %s", obj.Name())
	return "", VType{}
}

func (g *Gen) specConst(c *SpecConst) (string, VType) {
	srt := g.eng.specSort(c.Type)
	n := "sc_" + c.Name
	if !g.declSet[n] {
		g.declare(n, srt)
		if c.Val != nil {
			env := &Env{vars: map[string]EnvVal{}, lets: map[string]CExpr{}, heap: Heap{}, old: Heap{}, labels: map[string]*callRecord{}}
			t, _ := g.tr(c.Val, env)
			g.assert(fmt.Sprintf("(= %s %s)", n, t))
		}
	}
	return n, g.eng.specVType(c.Type)
}

func (g *Gen) trField(e *CField, env *Env) (string, VType) {
	// result.N
	if id, ok := e.X.(*CIdent); ok && id.Name == "result" {
		if ev, ok := env.vars["result."+e.Name]; ok {
			return ev.term, ev.ty
		}
	}
	// pkg.Name
	if id, ok := e.X.(*CIdent); ok {
		if _, isVar := env.vars[id.Name]; !isVar && env.pkg != nil {
			for _, imp := range env.pkg.Imports() {
				if imp.Name() == id.Name {
					if obj := imp.Scope().Lookup(e.Name); obj != nil {
						return g.trObject(obj, env)
					}
				}
			}
		}
	}
	x, xt := g.tr(e.X, env)
	if xt.Go == nil {
		trFail("field %s of spec value", e.Name)
	}
	if xt.sort() == "Slice" {
		switch e.Name {
		case "arr", "off", "len", "cap":
			return fmt.Sprintf("(s-%s %s)", e.Name, x), goInt
		}
	}
	st := deref(xt.Go)
	s, ok := st.Underlying().(*types.Struct)
	if !ok {
		trFail("field %s of non-struct %s", e.Name, xt.Go)
	}
	for i := 0; i < s.NumFields(); i++ {
		if s.Field(i).Name() == e.Name {
			if k, esc := g.eng.escapingField(st, i); esc {
				return fmt.Sprintf("(select %s (paddr %s %d))", g.heapGet(env.heap, g.cellRegion(s.Field(i).Type())), x, k), VType{Go: s.Field(i).Type()}
			}
			r := g.fieldRegion(st, i)
			return fmt.Sprintf("(select %s %s)", g.heapGet(env.heap, r), x), VType{Go: s.Field(i).Type()}
		}
	}
	trFail("no field %s in %s", e.Name, st)
	return "", VType{}
}

func (g *Gen) trBinary(e *CBinary, env *Env) (string, VType) {
	switch e.Op {
	case "&&", "||", "==>", "<==>":
		x, _ := g.tr(e.X, env)
		y, _ := g.tr(e.Y, env)
		op := map[string]string{"&&": "and", "||": "or", "==>": "=>", "<==>": "="}[e.Op]
		return fmt.Sprintf("(%s %s %s)", op, x, y), goBool
	case "==", "!=":
		x, xt := g.tr(e.X, env)
		y, yt := g.tr(e.Y, env)
		var eq string
		switch {
		case xt.IsNil && yt.IsNil:
			eq = "true"
		case yt.IsNil:
			eq = g.isNilTerm(x, xt)
		case xt.IsNil:
			eq = g.isNilTerm(y, yt)
		default:
			if xt.sort() != yt.sort() {
				trFail("comparison of %s and %s in %s", xt.sort(), yt.sort(), cexprString(e))
			}
			eq = fmt.Sprintf("(= %s %s)", x, y)
		}
		if e.Op == "!=" {
			eq = "(not " + eq + ")"
		}
		return eq, goBool
	case "<", "<=", ">", ">=":
		x, _ := g.tr(e.X, env)
		y, _ := g.tr(e.Y, env)
		return fmt.Sprintf("(%s %s %s)", e.Op, x, y), goBool
	case "+", "-", "*":
		x, xt := g.tr(e.X, env)
		y, _ := g.tr(e.Y, env)
		return fmt.Sprintf("(%s %s %s)", e.Op, x, y), xt
	case "/":
		x, xt := g.tr(e.X, env)
		y, _ := g.tr(e.Y, env)
		return fmt.Sprintf("(div %s %s)", x, y), xt
	case "%":
		x, xt := g.tr(e.X, env)
		y, _ := g.tr(e.Y, env)
		return fmt.Sprintf("(mod %s %s)", x, y), xt
	case "in":
		k, _ := g.tr(e.X, env)
		m, mt := g.tr(e.Y, env)
		if mt.Go != nil {
			if u, ok := mt.Go.Underlying().(*types.Map); ok {
				dom, _, _ := g.mapRegions(u)
				return fmt.Sprintf("(and (not (= %s 0)) (select (select %s %s) %s))", m, g.heapGet(env.heap, dom), m, k), goBool
			}
		}
		if strings.HasPrefix(mt.Sort, "(Array ") {
			return fmt.Sprintf("(select %s %s)", m, k), goBool
		}
		trFail("`in` on non-map %s", cexprString(e.Y))
	case "++":
		x, _ := g.trAs(e.X, env, "Bytes")
		y, _ := g.trAs(e.Y, env, "Bytes")
		g.declareSpecFn("bcat")
		return fmt.Sprintf("(bcat %s %s)", x, y), VType{Sort: "Bytes"}
	}
	trFail("unsupported operator %s", e.Op)
	return "", VType{}
}

func (g *Gen) isNilTerm(x string, t VType) string {
	switch t.sort() {
	case "Int":
		return fmt.Sprintf("(= %s 0)", x)
	case "Slice":
		return fmt.Sprintf("(= %s nil_slice)", x)
	case "Iface":
		return fmt.Sprintf("(= %s nil_iface)", x)
	}
	trFail("nil comparison on sort %s", t.sort())
	return ""
}

func (g *Gen) trQuant(e *CQuant, env *Env) (string, VType) {
	saved := map[string]*EnvVal{}
	var binders []string
	for _, v := range e.Vars {
		vt, err := g.eng.resolveType(v.Type, env.pkg)
		if err != nil {
			trFail("%v", err)
		}
		if old, ok := env.vars[v.Name]; ok {
			o := old
			saved[v.Name] = &o
		} else {
			saved[v.Name] = nil
		}
		g.nq++
		bn := fmt.Sprintf("q_%s_%d", v.Name, g.nq)
		env.vars[v.Name] = EnvVal{term: bn, ty: vt}
		binders = append(binders, fmt.Sprintf("(%s %s)", bn, vt.sort()))
	}
	body, _ := g.tr(e.Body, env)
	var pats []string
	for _, set := range e.Triggers {
		var ts []string
		for _, te := range set {
			t, _ := g.tr(te, env)
			ts = append(ts, t)
		}
		pats = append(pats, ":pattern ("+strings.Join(ts, " ")+")")
	}
	if len(pats) == 0 && !e.Forall {
		// existential over integers: instantiate at every integer value the function computes
		// (itrig is a trivially true marker predicate; the generator asserts it for int SSA values)
		var ts, ts2, conj []string
		allInt := true
		for _, v := range e.Vars {
			ev := env.vars[v.Name]
			if ev.ty.sort() != "Int" {
				allInt = false
			}
			ts = append(ts, "(itrig "+ev.term+")")
			ts2 = append(ts2, "(itrig2 "+ev.term+")")
			conj = append(conj, "(itrig "+ev.term+")")
		}
		if allInt {
			body = "(and " + strings.Join(conj, " ") + " " + body + ")"
			pats = append(pats, ":pattern ("+strings.Join(ts, " ")+")")
			if len(e.Vars) == 1 {
				pats = append(pats, ":pattern ("+strings.Join(ts2, " ")+")")
			}
		}
	}
	qid := "q"
	if env.clause != nil {
		qid = mangle(env.clause.Kind + "_" + env.clause.Owner + "_" + env.clause.Name)
	}
	g.nqid++
	qid = fmt.Sprintf("%s_%d", qid, g.nqid)
	if len(pats) > 0 {
		body = "(! " + body + " " + strings.Join(pats, " ") + " :qid " + qid + ")"
	} else {
		body = "(! " + body + " :qid " + qid + ")"
	}
	for n, o := range saved {
		if o == nil {
			delete(env.vars, n)
		} else {
			env.vars[n] = *o
		}
	}
	q := "exists"
	if e.Forall {
		q = "forall"
	}
	return fmt.Sprintf("(%s (%s) %s)", q, strings.Join(binders, " "), body), goBool
}

// trAs translates and coerces to the wanted SMT sort where a standard coercion exists.
func (g *Gen) trAs(e CExpr, env *Env, want string) (string, VType) {
	t, ty := g.tr(e, env)
	have := ty.sort()
	if ty.IsNil {
		switch want {
		case "Int":
			return "0", VType{Sort: "Int"}
		case "Iface":
			return "nil_iface", VType{Sort: "Iface"}
		case "Slice":
			return "nil_slice", VType{Sort: "Slice"}
		}
	}
	if have == want {
		return t, ty
	}
	if want == "Bytes" && ty.Go != nil {
		if isByteSlice(ty.Go) {
			r := g.elemRegion(types.Typ[types.Uint8])
			e := g.heapGet(env.heap, r)
			bt := fmt.Sprintf("(bytesOf (select %s (s-arr %s)) (s-off %s) (s-len %s))", e, t, t, t)
			if !strings.Contains(t, "q_") && !g.declSet["b0:"+bt] {
				// ground bridge between the abstract byte string and the slice's first element (index form `at`)
				g.declSet["b0:"+bt] = true
				g.assert(fmt.Sprintf("(= (bat %s 0) (select (select %s (s-arr %s)) (at %s 0)))", bt, e, t, t))
			}
			return bt, VType{Sort: "Bytes"}
		}
		if isString(ty.Go) {
			return fmt.Sprintf("(strbytes %s)", t), VType{Sort: "Bytes"}
		}
	}
	if want == "Iface" && ty.Go != nil {
		return g.box(t, ty.Go), VType{Sort: "Iface"}
	}
	trFail("cannot coerce %s (%s) to %s", cexprString(e), have, want)
	return "", VType{}
}

func (g *Gen) declareSpecFn(name string) {
	f, ok := g.eng.specs.Fns[name]
	if !ok {
		trFail("unknown spec function %s", name)
	}
	if g.declSet[name] {
		return
	}
	var ps []string
	for _, p := range f.Params {
		ps = append(ps, g.eng.specSort(p))
	}
	g.declareFun(name, ps, g.eng.specSort(f.Result))
}

func (g *Gen) trCall(e *CCall, env *Env) (string, VType) {
	switch e.Fn {
	case "old":
		ne := *env
		ne.heap = env.old
		return g.tr(e.Args[0], &ne)
	case "atentry":
		// loop entry heap
		ne := *env
		if env.loopEntry == nil {
			trFail("atentry outside loop invariant")
		}
		ne.heap = env.loopEntry
		return g.tr(e.Args[0], &ne)
	case "at", "pre":
		lab := cexprString(e.Args[0])
		rec, ok := env.labels[lab]
		if !ok {
			if g.labelExists(lab) {
				// a call that exists in the function but has not been passed on the way here: at(l, e) is
				// unspecified on such a path (clauses guard it with reached(l)); it is read in the current state
				return g.tr(e.Args[1], env)
			}
			trFail("unknown call label %s", lab)
		}
		ne := *env
		if e.Fn == "at" {
			ne.heap = rec.post
		} else {
			ne.heap = rec.pre
		}
		return g.tr(e.Args[1], &ne)
	case "reached":
		lab := cexprString(e.Args[0])
		rec, ok := env.labels[lab]
		if !ok {
			return "false", goBool
		}
		return rec.pcAfter, goBool
	case "len", "cap":
		x, xt := g.tr(e.Args[0], env)
		if xt.Go != nil {
			switch u := xt.Go.Underlying().(type) {
			case *types.Slice:
				return fmt.Sprintf("(s-%s %s)", e.Fn, x), goInt
			case *types.Basic:
				return fmt.Sprintf("(strlen %s)", x), goInt
			case *types.Map:
				_, _, ln := g.mapRegions(u)
				return fmt.Sprintf("(ite (= %s 0) 0 (select %s %s))", x, g.heapGet(env.heap, ln), x), goInt
			}
		}
		if xt.Sort == "Bytes" {
			return fmt.Sprintf("(blen %s)", x), goInt
		}
		trFail("len of %s", cexprString(e.Args[0]))
	case "fresh":
		x, xt := g.tr(e.Args[0], env)
		ref := x
		if xt.sort() == "Slice" {
			ref = fmt.Sprintf("(s-arr %s)", x)
		}
		ref0 := ref
		if xt.Go != nil {
			ref = g.ownT(xt.Go, ref)
		}
		return fmt.Sprintf("(and (not (= %s 0)) (not (select %s %s)) (select %s %s))", ref0, g.heapGet(env.old, g.allocRegion()), ref, g.heapGet(env.heap, g.allocRegion()), ref), goBool
	case "allocated":
		x, xt := g.tr(e.Args[0], env)
		ref := x
		if xt.sort() == "Slice" {
			ref = fmt.Sprintf("(s-arr %s)", x)
		}
		if xt.Go != nil {
			ref = g.ownT(xt.Go, ref)
		}
		return fmt.Sprintf("(select %s %s)", g.heapGet(env.heap, g.allocRegion()), ref), goBool
	case "upd":
		// upd(a, k, v): array update
		a, at := g.tr(e.Args[0], env)
		if !strings.HasPrefix(at.Sort, "(Array ") {
			trFail("upd of non-array")
		}
		ks, vs := arraySorts(at.Sort)
		k, _ := g.trAs(e.Args[1], env, ks)
		v, _ := g.trAs(e.Args[2], env, vs)
		return fmt.Sprintf("(store %s %s %s)", a, k, v), at
	case "slot":
		// slot(arr, j, T): element j (raw index) of the backing array arr with element type T
		a, _ := g.tr(e.Args[0], env)
		j, _ := g.tr(e.Args[1], env)
		vt, err := g.eng.resolveType(typeText(e.Args[2]), env.pkg)
		if err != nil {
			trFail("%v", err)
		}
		return fmt.Sprintf("(select (select %s %s) %s)", g.heapGet(env.heap, g.elemRegion(vt.Go)), a, j), vt
	case "dyntype":
		x, _ := g.trAs(e.Args[0], env, "Iface")
		return fmt.Sprintf("(itype %s)", x), goInt
	case "typetag":
		vt, err := g.eng.resolveType(typeText(e.Args[0]), env.pkg)
		if err != nil {
			trFail("%v", err)
		}
		return fmt.Sprint(g.eng.typeTag(vt.Go)), goInt
	case "isa":
		// isa(x, T): the reference x was allocated as a struct of type T
		x, _ := g.tr(e.Args[0], env)
		vt, err := g.eng.resolveType(typeText(e.Args[1]), env.pkg)
		if err != nil {
			trFail("%v", err)
		}
		return fmt.Sprintf("(= (rtype %s) %d)", x, g.eng.typeTag(vt.Go)), goBool
	case "istype":
		x, _ := g.trAs(e.Args[0], env, "Iface")
		vt, err := g.eng.resolveType(typeText(e.Args[1]), env.pkg)
		if err != nil {
			trFail("%v", err)
		}
		_, _, tag := g.boxFn(vt.Go)
		return fmt.Sprintf("(= (itype %s) %d)", x, tag), goBool
	case "unbox":
		x, _ := g.trAs(e.Args[0], env, "Iface")
		vt, err := g.eng.resolveType(typeText(e.Args[1]), env.pkg)
		if err != nil {
			trFail("%v", err)
		}
		_, ub, _ := g.boxFn(vt.Go)
		return fmt.Sprintf("(%s %s)", ub, x), vt
	case "box":
		x, xt := g.tr(e.Args[0], env)
		if xt.Go == nil {
			trFail("box of spec value")
		}
		return g.box(x, xt.Go), VType{Go: types.NewInterfaceType(nil, nil)}
	case "boxed":
		// the interface value an argument was passed as
		if id, ok := e.Args[0].(*CIdent); ok {
			if ev, ok := env.vars[id.Name]; ok && ev.boxed != "" {
				return ev.boxed, VType{Sort: "Iface"}
			}
		}
		return g.trAs(e.Args[0], env, "Iface")
	case "bytes":
		return g.trAs(e.Args[0], env, "Bytes")
	case "string":
		// string(x) for x of a named string type: the same value
		x, xt := g.tr(e.Args[0], env)
		if xt.Go != nil {
			if b, ok := xt.Go.Underlying().(*types.Basic); ok && b.Info()&types.IsString != 0 {
				return x, VType{Go: types.Typ[types.String]}
			}
		}
		trFail("string(%s): only named string types", cexprString(e.Args[0]))
	case "domsel":
		// raw domain membership term of a map (for use in triggers): domsel(m, k)
		m, mt := g.tr(e.Args[0], env)
		k, _ := g.tr(e.Args[1], env)
		u, ok := mt.Go.Underlying().(*types.Map)
		if !ok {
			trFail("domsel of non-map")
		}
		dom, _, _ := g.mapRegions(u)
		return fmt.Sprintf("(select (select %s %s) %s)", g.heapGet(env.heap, dom), m, k), goBool
	case "visited":
		if env.visited == "" {
			trFail("visited() outside a map-range loop")
		}
		k, _ := g.tr(e.Args[0], env)
		return fmt.Sprintf("(select %s %s)", env.visited, k), goBool
	case "ite":
		c, _ := g.tr(e.Args[0], env)
		a, at := g.tr(e.Args[1], env)
		b, _ := g.tr(e.Args[2], env)
		return fmt.Sprintf("(ite %s %s %s)", c, a, b), at
	case "sliceof":
		// sliceof(arr, off, len, cap)
		var ts []string
		for _, a := range e.Args {
			t, _ := g.tr(a, env)
			ts = append(ts, t)
		}
		return fmt.Sprintf("(mk-slice %s)", strings.Join(ts, " ")), VType{Sort: "Slice"}
	case "functag":
		// functag(name): tag of a package-level function
		t, ty := g.tr(e.Args[0], env)
		return t, ty
	}
	if d, ok := g.eng.specs.Defines[e.Fn]; ok {
		return g.trDefine(d, e, env)
	}
	if f, ok := g.eng.specs.Fns[e.Fn]; ok {
		g.declareSpecFn(e.Fn)
		if len(e.Args) != len(f.Params) {
			trFail("%s expects %d arguments", e.Fn, len(f.Params))
		}
		var as []string
		for i, a := range e.Args {
			t, _ := g.trAs(a, env, g.eng.specSort(f.Params[i]))
			as = append(as, t)
		}
		if len(as) == 0 {
			return e.Fn, g.eng.specVType(f.Result)
		}
		return fmt.Sprintf("(%s %s)", e.Fn, strings.Join(as, " ")), g.eng.specVType(f.Result)
	}
	trFail("unknown function %s", e.Fn)
	return "", VType{}
}

func typeText(e CExpr) string {
	switch e := e.(type) {
	case *CIdent:
		return e.Name
	case *CUnary:
		if e.Op == "*" {
			return "*" + typeText(e.X)
		}
	case *CField:
		return typeText(e.X) + "." + e.Name
	case *CIndex:
		// []T parsed oddly; not supported here
	}
	return cexprString(e)
}

func (g *Gen) trDefine(d *SpecDefine, e *CCall, env *Env) (string, VType) {
	if len(e.Args) != len(d.Params) {
		trFail("%s expects %d arguments", d.Name, len(d.Params))
	}
	if env.letDepth > 30 {
		trFail("define recursion in %s", d.Name)
	}
	ne := &Env{vars: map[string]EnvVal{}, lets: map[string]CExpr{}, heap: env.heap, old: env.old, loopEntry: env.loopEntry, labels: env.labels, pkg: env.pkg,
		visited: env.visited, visitedRegion: env.visitedRegion, clause: env.clause, letDepth: env.letDepth + 1}
	if d.Pkg != nil {
		ne.pkg = d.Pkg
	}
	for i, p := range d.Params {
		vt, err := g.eng.resolveType(p.Type, ne.pkg)
		if err != nil {
			trFail("define %s: %v", d.Name, err)
		}
		var t string
		if vt.Go != nil {
			var at VType
			t, at = g.tr(e.Args[i], env)
			if at.IsNil {
				t = zeroOf(vt.Go)
			} else if at.sort() != vt.sort() {
				t, _ = g.trAs(e.Args[i], env, vt.sort())
			}
		} else {
			t, _ = g.trAs(e.Args[i], env, vt.sort())
		}
		ne.vars[p.Name] = EnvVal{term: t, ty: vt}
	}
	return g.tr(d.Body, ne)
}
