package main

// Contract and spec files.
//
// Contracts on functions of /repo live in comment-only Go files guarded by the
// build tag `verif` (lines starting with "//@"). Specification vocabulary
// (sorts, uninterpreted functions, macros, axioms, lemmas, trusted contracts of
// external functions) lives in /verif/contracts/*.spec with the same syntax
// without the "//@" prefix.
//
// Directives (first word of a logical line; any other line continues the
// previous directive):
//   sort NAME
//   fn NAME(T, ...) R
//   const NAME T
//   define NAME(x T, ...) R = EXPR          (macro, expanded at use site)
//   axiom NAME: EXPR
//   lemma[Cxx,...] NAME: EXPR
//   func NAME [variant]                     starts a function contract block
//     trusted REASON...
//     pure
//     modifies REGION, ...                  (trusted blocks only; in-reach functions: inferred)
//     let NAME = EXPR
//     requires NAME: EXPR
//     ensures[Cxx,...] NAME: EXPR
//     ensures[meta ...] NAME: EXPR          assumed at call sites, not proved
//     loop N                                 following invariants belong to loop N (source order)
//     invariant[Cxx] NAME: EXPR
//     decreases EXPR
//     bind NAME = CALLEE#N.RESULT           ghost out binding (see DESIGN §5)
//   # comment

import (
	"bufio"
	"fmt"
	"go/types"
	"os"
	"regexp"
	"strconv"
	"strings"
)

type Clause struct {
	Assumed bool   // `assume`: a free assumption on entry (listed in the evidence), not an obligation of callers
	Kind    string // requires ensures invariant
	Name    string
	Tags    []string
	Meta    string
	Expr    CExpr
	Src     string
	Loop    int
	Label   string
	File    string
	Line    int
	Owner   string
}

type LetDef struct {
	Name string
	Expr CExpr
}

type BindDef struct {
	Name   string
	Callee string
	N      int
	Result string // "0","1",... or "" or "pre:<argname>"
}

type LoopSpec struct {
	Invariants []*Clause
	Decreases  CExpr
	DecSrc     string
}

type Contract struct {
	FuncName   string
	Variant    string
	Trusted    bool
	TrustedWhy string
	Pure       bool
	NoInv      bool
	NeedsInv   bool
	Inline     bool
	HasMod     bool
	Modifies   []string
	Lets       []LetDef
	Binds      []BindDef
	Requires   []*Clause
	Ensures    []*Clause
	CallSites  []*Clause
	Covers     []*Clause // covers[..] LABEL name: cond -- the call LABEL is executed whenever cond holds (per iteration / per call)
	HasCallees bool
	Callees    []string
	CalleeTags []string
	Loops      map[int]*LoopSpec
	Decreases  CExpr
	File       string
	Line       int
	Used       bool
	FromRepo   bool
	PkgPath    string
}

type SpecFn struct {
	Name   string
	Params []string // spec type names
	Result string
}

type SpecDefine struct {
	Name    string
	Params  []CVar
	Result  string
	Body    CExpr
	PkgPath string
	Pkg     *types.Package
}

type SpecAxiom struct {
	Name    string
	Expr    CExpr
	Src     string
	File    string
	PkgPath string
}

type SpecLemma struct {
	Name string
	Tags []string
	Expr CExpr
	Src  string
	File string
}

type GInv struct {
	IsPkgInv bool
	Name     string
	Expr     CExpr
	Src      string
	File     string
	Line     int
	PkgPath  string
}

type SpecConst struct {
	Name string
	Type string
	Val  CExpr
}

type Specs struct {
	Sorts     []string
	Fns       map[string]*SpecFn
	FnOrder   []string
	Consts    map[string]*SpecConst
	ConstOrd  []string
	Defines   map[string]*SpecDefine
	Axioms    []*SpecAxiom
	Lemmas    []*SpecLemma
	Contracts []*Contract
	GInvs     []*GInv
	PkgInvs   []*GInv
	Ghosts    map[string]string
	ErrAttrs  []string
	IfacePure map[string]bool
}

func NewSpecs() *Specs {
	return &Specs{Fns: map[string]*SpecFn{}, Consts: map[string]*SpecConst{}, Defines: map[string]*SpecDefine{}, Ghosts: map[string]string{}, IfacePure: map[string]bool{}}
}

var directiveRe = regexp.MustCompile(`^(sort|fn|const|define|axiom|lemma|ginv|pkginv|noinv|needsinv|inline|ghost|errattr|ifacepure|package|func|trusted|pure|modifies|let|requires|assume|ensures|callsite|covers|callees|loop|invariant|decreases|bind)\b`)

type logicalLine struct {
	text string
	line int
}

// readLogicalLines returns directive lines with continuations joined.
func readLogicalLines(path string, repoStyle bool) ([]logicalLine, error) {
	f, err := os.Open(path)
	if err != nil {
		return nil, err
	}
	defer f.Close()
	var out []logicalLine
	sc := bufio.NewScanner(f)
	sc.Buffer(make([]byte, 1<<20), 1<<20)
	n := 0
	for sc.Scan() {
		n++
		l := sc.Text()
		if repoStyle {
			t := strings.TrimSpace(l)
			if !strings.HasPrefix(t, "//@") {
				continue
			}
			l = strings.TrimPrefix(t, "//@")
		}
		t := strings.TrimSpace(l)
		if t == "" || strings.HasPrefix(t, "#") {
			continue
		}
		if directiveRe.MatchString(t) {
			out = append(out, logicalLine{t, n})
		} else {
			if len(out) == 0 {
				return nil, fmt.Errorf("%s:%d: continuation without directive", path, n)
			}
			out[len(out)-1].text += " " + t
		}
	}
	return out, sc.Err()
}

var clauseHead = regexp.MustCompile(`^(requires|assume|ensures|callsite|invariant|axiom|lemma|ginv|pkginv)(\[[^\]]*\])?\s+([A-Za-z0-9_.\-]+)\s*:\s*(.*)$`)

func (s *Specs) LoadFile(path string, repoStyle bool, defaultPkg string) error {
	lines, err := readLogicalLines(path, repoStyle)
	if err != nil {
		return err
	}
	var cur *Contract
	curLoop := 0
	curPkg := defaultPkg
	for _, ll := range lines {
		t := ll.text
		errf := func(f string, a ...interface{}) error {
			return fmt.Errorf("%s:%d: %s", path, ll.line, fmt.Sprintf(f, a...))
		}
		word := directiveRe.FindString(t)
		rest := strings.TrimSpace(t[len(word):])
		switch word {
		case "package":
			curPkg = rest
			if p, ok := pkgAliases[rest]; ok {
				curPkg = p
			}
			cur = nil
		case "ghost":
			f := strings.Fields(rest)
			if len(f) < 2 {
				return errf("bad ghost")
			}
			s.Ghosts[f[0]] = strings.Join(f[1:], " ")
			cur = nil
		case "errattr":
			s.ErrAttrs = append(s.ErrAttrs, rest)
			s.Fns[rest] = &SpecFn{rest, []string{"error"}, "bool"}
			s.FnOrder = append(s.FnOrder, rest)
			cur = nil
		case "ifacepure":
			s.IfacePure["iface "+rest] = true
			cur = nil
		case "sort":
			s.Sorts = append(s.Sorts, rest)
			cur = nil
		case "fn":
			// fn name(T1, T2) R
			m := regexp.MustCompile(`^([A-Za-z0-9_]+)\(([^)]*)\)\s*(.+)$`).FindStringSubmatch(rest)
			if m == nil {
				return errf("bad fn declaration")
			}
			var ps []string
			for _, p := range strings.Split(m[2], ",") {
				p = strings.TrimSpace(p)
				if p != "" {
					ps = append(ps, p)
				}
			}
			if _, dup := s.Fns[m[1]]; dup {
				return errf("duplicate fn %s", m[1])
			}
			s.Fns[m[1]] = &SpecFn{m[1], ps, strings.TrimSpace(m[3])}
			s.FnOrder = append(s.FnOrder, m[1])
			cur = nil
		case "const":
			m := regexp.MustCompile(`^([A-Za-z0-9_]+)\s+([^=]+?)(\s*=\s*(.*))?$`).FindStringSubmatch(rest)
			if m == nil {
				return errf("bad const declaration")
			}
			c := &SpecConst{Name: m[1], Type: strings.TrimSpace(m[2])}
			if m[4] != "" {
				e, err := ParseCExpr(m[4])
				if err != nil {
					return errf("%v", err)
				}
				c.Val = e
			}
			s.Consts[c.Name] = c
			s.ConstOrd = append(s.ConstOrd, c.Name)
			cur = nil
		case "define":
			// define name(x T, y U) R = expr
			eq := strings.Index(rest, "=")
			for eq >= 0 && eq+1 < len(rest) && (rest[eq+1] == '=' || (eq > 0 && strings.ContainsRune("=!<>", rune(rest[eq-1])))) {
				nx := strings.Index(rest[eq+2:], "=")
				if nx < 0 {
					eq = -1
					break
				}
				eq = eq + 2 + nx
			}
			if eq < 0 {
				return errf("bad define")
			}
			head := strings.TrimSpace(rest[:eq])
			body := strings.TrimSpace(rest[eq+1:])
			m := regexp.MustCompile(`^([A-Za-z0-9_]+)\((.*)\)\s*(\S+)$`).FindStringSubmatch(head)
			if m == nil {
				return errf("bad define head %q", head)
			}
			d := &SpecDefine{Name: m[1], Result: m[3], PkgPath: curPkg}
			for _, p := range splitTop(m[2]) {
				p = strings.TrimSpace(p)
				if p == "" {
					continue
				}
				sp := strings.IndexAny(p, " \t")
				if sp < 0 {
					return errf("bad define param %q", p)
				}
				d.Params = append(d.Params, CVar{p[:sp], strings.TrimSpace(p[sp:])})
			}
			e, err := ParseCExpr(body)
			if err != nil {
				return errf("%v", err)
			}
			d.Body = e
			if _, dup := s.Defines[d.Name]; dup {
				return errf("duplicate define %s", d.Name)
			}
			s.Defines[d.Name] = d
			cur = nil
		case "ginv", "pkginv":
			m := clauseHead.FindStringSubmatch(t)
			if m == nil {
				return errf("bad ginv")
			}
			e, err := ParseCExpr(m[4])
			if err != nil {
				return errf("%v", err)
			}
			gi := &GInv{Name: m[3], Expr: e, Src: m[4], File: path, Line: ll.line, PkgPath: curPkg, IsPkgInv: word == "pkginv"}
			if gi.IsPkgInv {
				s.PkgInvs = append(s.PkgInvs, gi)
			} else {
				s.GInvs = append(s.GInvs, gi)
			}
			cur = nil
		case "noinv":
			if cur == nil {
				return errf("noinv outside func block")
			}
			cur.NoInv = true
		case "needsinv":
			if cur == nil {
				return errf("needsinv outside func block")
			}
			cur.NeedsInv = true
		case "inline":
			if cur == nil {
				return errf("inline outside func block")
			}
			cur.Inline = true
		case "axiom", "lemma":
			m := clauseHead.FindStringSubmatch(t)
			if m == nil {
				return errf("bad %s", word)
			}
			e, err := ParseCExpr(m[4])
			if err != nil {
				return errf("%v", err)
			}
			if word == "axiom" {
				s.Axioms = append(s.Axioms, &SpecAxiom{m[3], e, m[4], path, curPkg})
			} else {
				s.Lemmas = append(s.Lemmas, &SpecLemma{m[3], parseTags(m[2]), e, m[4], path})
			}
			cur = nil
		case "func":
			name := rest
			variant := ""
			if i := strings.Index(rest, "["); i >= 0 && strings.HasSuffix(rest, "]") && !strings.HasPrefix(rest, "(") {
				name = strings.TrimSpace(rest[:i])
				variant = strings.TrimSpace(rest[i+1 : len(rest)-1])
			} else if i := strings.LastIndex(rest, " ["); i >= 0 && strings.HasSuffix(rest, "]") {
				name = strings.TrimSpace(rest[:i])
				variant = strings.TrimSpace(rest[i+2 : len(rest)-1])
			}
			cur = &Contract{FuncName: name, Variant: variant, Loops: map[int]*LoopSpec{}, File: path, Line: ll.line, FromRepo: repoStyle, PkgPath: curPkg}
			curLoop = 0
			s.Contracts = append(s.Contracts, cur)
		case "trusted":
			if cur == nil {
				return errf("trusted outside func block")
			}
			cur.Trusted = true
			cur.TrustedWhy = rest
		case "pure":
			if cur == nil {
				return errf("pure outside func block")
			}
			cur.Pure = true
			cur.HasMod = true
		case "modifies":
			if cur == nil {
				return errf("modifies outside func block")
			}
			cur.HasMod = true
			for _, r := range splitTop(rest) {
				r = strings.TrimSpace(r)
				if r != "" && r != "nothing" {
					cur.Modifies = append(cur.Modifies, r)
				}
			}
		case "let":
			if cur == nil {
				return errf("let outside func block")
			}
			i := strings.Index(rest, "=")
			if i < 0 {
				return errf("bad let")
			}
			e, err := ParseCExpr(rest[i+1:])
			if err != nil {
				return errf("%v", err)
			}
			cur.Lets = append(cur.Lets, LetDef{strings.TrimSpace(rest[:i]), e})
		case "bind":
			if cur == nil {
				return errf("bind outside func block")
			}
			m := regexp.MustCompile(`^([A-Za-z0-9_]+)\s*=\s*(\S+?)#([0-9]+)(\.(\S+))?$`).FindStringSubmatch(rest)
			if m == nil {
				return errf("bad bind")
			}
			n, _ := strconv.Atoi(m[3])
			cur.Binds = append(cur.Binds, BindDef{m[1], m[2], n, m[5]})
		case "loop":
			if cur == nil {
				return errf("loop outside func block")
			}
			n, err := strconv.Atoi(strings.TrimSuffix(rest, ":"))
			if err != nil {
				return errf("bad loop ordinal")
			}
			curLoop = n
			if cur.Loops[n] == nil {
				cur.Loops[n] = &LoopSpec{}
			}
		case "decreases":
			if cur == nil {
				return errf("decreases outside func block")
			}
			e, err := ParseCExpr(rest)
			if err != nil {
				return errf("%v", err)
			}
			if curLoop > 0 {
				cur.Loops[curLoop].Decreases = e
				cur.Loops[curLoop].DecSrc = rest
			} else {
				cur.Decreases = e
			}
		case "callees":
			// callees[Cxx] f, g, ...: the only functions of the repository this function may call
			if cur == nil {
				return errf("callees outside func block")
			}
			m := regexp.MustCompile(`^callees(\[[^\]]*\])?\s*(.*)$`).FindStringSubmatch(t)
			if m == nil {
				return errf("bad callees")
			}
			cur.HasCallees = true
			cur.CalleeTags = parseTags(m[1])
			for _, c := range splitTop(m[2]) {
				if c = strings.TrimSpace(c); c != "" && c != "none" {
					cur.Callees = append(cur.Callees, c)
				}
			}
		case "callsite":
			// callsite[Cxx] LABEL NAME: EXPR   -- must hold at the call LABEL (e.g. add#2); EXPR may use the
			// caller's source-level locals and the callee's parameters as arg_<name>
			if cur == nil {
				return errf("callsite outside func block")
			}
			m := regexp.MustCompile(`^callsite(\[[^\]]*\])?\s+(\S+)\s+([A-Za-z0-9_.\-]+)\s*:\s*(.*)$`).FindStringSubmatch(t)
			if m == nil {
				return errf("bad callsite (need `callsite[tags] label name: expr`)")
			}
			e, err := ParseCExpr(m[4])
			if err != nil {
				return errf("%v", err)
			}
			cl := &Clause{Kind: "callsite", Name: m[3], Expr: e, Src: m[4], File: path, Line: ll.line, Owner: cur.FuncName, Label: m[2]}
			cl.Tags = parseTags(m[1])
			cur.CallSites = append(cur.CallSites, cl)
		case "covers":
			// covers[Cxx] LABEL NAME: EXPR   -- whenever EXPR holds at the end of an iteration of the innermost loop
			// around the call LABEL (at a return, if the call is in no loop), that iteration (that call) executed LABEL
			if cur == nil {
				return errf("covers outside func block")
			}
			m := regexp.MustCompile(`^covers(\[[^\]]*\])?\s+(\S+)\s+([A-Za-z0-9_.\-]+)\s*:\s*(.*)$`).FindStringSubmatch(t)
			if m == nil {
				return errf("bad covers (need `covers[tags] label name: expr`)")
			}
			e, err := ParseCExpr(m[4])
			if err != nil {
				return errf("%v", err)
			}
			cl := &Clause{Kind: "covers", Name: m[3], Expr: e, Src: m[4], File: path, Line: ll.line, Owner: cur.FuncName, Label: m[2]}
			cl.Tags = parseTags(m[1])
			cur.Covers = append(cur.Covers, cl)
		case "requires", "assume", "ensures", "invariant":
			if cur == nil {
				return errf("%s outside func block", word)
			}
			m := clauseHead.FindStringSubmatch(t)
			if m == nil {
				return errf("bad clause (need `%s[tags] name: expr`)", word)
			}
			e, err := ParseCExpr(m[4])
			if err != nil {
				return errf("%v", err)
			}
			cl := &Clause{Kind: word, Name: m[3], Expr: e, Src: m[4], File: path, Line: ll.line, Owner: cur.FuncName}
			for _, tg := range parseTags(m[2]) {
				if strings.HasPrefix(tg, "meta") {
					cl.Meta = tg
				} else {
					cl.Tags = append(cl.Tags, tg)
				}
			}
			switch word {
			case "assume":
				cl.Kind = "requires"
				cl.Assumed = true
				cur.Requires = append(cur.Requires, cl)
			case "requires":
				cur.Requires = append(cur.Requires, cl)
			case "ensures":
				cur.Ensures = append(cur.Ensures, cl)
			case "invariant":
				if curLoop == 0 {
					return errf("invariant outside loop block")
				}
				cl.Loop = curLoop
				cur.Loops[curLoop].Invariants = append(cur.Loops[curLoop].Invariants, cl)
			}
		}
	}
	return nil
}

func parseTags(s string) []string {
	s = strings.TrimSuffix(strings.TrimPrefix(s, "["), "]")
	var out []string
	for _, t := range strings.Split(s, ",") {
		t = strings.TrimSpace(t)
		if t != "" {
			out = append(out, t)
		}
	}
	return out
}

// splitTop splits on commas that are not nested in brackets/parens.
func splitTop(s string) []string {
	var out []string
	depth := 0
	last := 0
	for i, c := range s {
		switch c {
		case '(', '[', '{':
			depth++
		case ')', ']', '}':
			depth--
		case ',':
			if depth == 0 {
				out = append(out, s[last:i])
				last = i + 1
			}
		}
	}
	out = append(out, s[last:])
	return out
}
