package main

// tryReplay attempts to turn a solver model into a failing run of the real code.
// Returns true if the real code was observed to violate the obligation.
func tryReplay(o *Obligation, rf *replayFile) bool {
	return replayObligation(o, rf)
}
