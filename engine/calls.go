package main

import (
	"fmt"
	"go/constant"
	"go/token"
	"go/types"
	"sort"
	"strconv"
	"strings"

	"golang.org/x/tools/go/ssa"
)

// ---------- frame checking against a declared modifies clause ----------

func (g *Gen) setupModifies(st *BState) {
	c := g.con
	if c == nil || !c.HasMod {
		return
	}
	g.hasModifies = true
	env := g.baseEnv(st.heap, st.heap)
	for _, item := range c.Modifies {
		keys, ref, err := g.modItem(item, env)
		if err != nil {
			g.fatalf("modifies %q: %v", item, err)
			return
		}
		for _, k := range keys {
			g.modTargets[k] = append(g.modTargets[k], ref)
		}
	}
}

// modItem resolves one modifies item to region keys and a target ref term ("*" = whole region).
func (g *Gen) modItem(item string, env *Env) ([]string, string, error) {
	item = strings.TrimSpace(item)
	if strings.HasPrefix(item, "region(") && strings.HasSuffix(item, ")") {
		inner := strings.TrimSpace(item[7 : len(item)-1])
		r, err := g.regionFromSpec(inner, env)
		if err != nil {
			return nil, "", err
		}
		return r, "*", nil
	}
	if strings.HasPrefix(item, "ghost(") {
		name := strings.TrimSpace(item[6 : len(item)-1])
		gr, ok := g.eng.ghosts[name]
		if !ok {
			return nil, "", fmt.Errorf("unknown ghost %s", name)
		}
		r := g.ghostRegion(name, g.eng.specSort(gr))
		return []string{r.Key}, "*", nil
	}
	e, err := ParseCExpr(item)
	if err != nil {
		return nil, "", err
	}
	switch x := e.(type) {
	case *CCall:
		if x.Fn == "elems" && len(x.Args) == 1 {
			t, ty := g.tr(x.Args[0], env)
			sl, ok := ty.Go.Underlying().(*types.Slice)
			if !ok {
				return nil, "", fmt.Errorf("elems of non-slice")
			}
			return []string{g.elemRegion(sl.Elem()).Key}, fmt.Sprintf("(s-arr %s)", t), nil
		}
		if x.Fn == "mapof" && len(x.Args) == 1 {
			t, ty := g.tr(x.Args[0], env)
			mt, ok := ty.Go.Underlying().(*types.Map)
			if !ok {
				return nil, "", fmt.Errorf("mapof non-map")
			}
			d, v, l := g.mapRegions(mt)
			return []string{d.Key, v.Key, l.Key}, t, nil
		}
	case *CField:
		bt, bty := g.tr(x.X, env)
		st := deref(bty.Go)
		s, ok := st.Underlying().(*types.Struct)
		if !ok {
			return nil, "", fmt.Errorf("field of non-struct")
		}
		for i := 0; i < s.NumFields(); i++ {
			if s.Field(i).Name() == x.Name {
				if k, esc := g.eng.escapingField(st, i); esc {
					return []string{g.cellRegion(s.Field(i).Type()).Key}, fmt.Sprintf("(paddr %s %d)", bt, k), nil
				}
				return []string{g.fieldRegion(st, i).Key}, bt, nil
			}
		}
		return nil, "", fmt.Errorf("no field %s", x.Name)
	case *CUnary:
		if x.Op == "*" {
			if id, ok := x.X.(*CIdent); ok {
				if ev, ok := env.vars[id.Name]; ok && ev.loc != nil {
					if ev.loc.Kind == "global" {
						return []string{ev.loc.Region.Key}, "*", nil
					}
					return []string{ev.loc.Region.Key}, ev.loc.Ref, nil
				}
			}
			bt, bty := g.tr(x.X, env)
			return []string{g.cellRegion(deref(bty.Go)).Key}, bt, nil
		}
	}
	return nil, "", fmt.Errorf("unsupported modifies item")
}

func (g *Gen) regionFromSpec(s string, env *Env) ([]string, error) {
	f := strings.Fields(s)
	switch {
	case len(f) == 2 && f[0] == "elem":
		vt, err := g.eng.resolveType(f[1], env.pkg)
		if err != nil {
			return nil, err
		}
		return []string{g.elemRegion(vt.Go).Key}, nil
	case len(f) == 2 && f[0] == "cell":
		vt, err := g.eng.resolveType(f[1], env.pkg)
		if err != nil {
			return nil, err
		}
		return []string{g.cellRegion(vt.Go).Key}, nil
	case len(f) == 2 && f[0] == "map":
		vt, err := g.eng.resolveType(f[1], env.pkg)
		if err != nil {
			return nil, err
		}
		mt, ok := vt.Go.Underlying().(*types.Map)
		if !ok {
			return nil, fmt.Errorf("not a map type")
		}
		d, v, l := g.mapRegions(mt)
		return []string{d.Key, v.Key, l.Key}, nil
	case len(f) == 2 && f[0] == "global":
		for _, p := range g.eng.pkgs {
			if env.pkg != nil && p.Pkg == env.pkg {
				if gl, ok := p.Members[f[1]].(*ssa.Global); ok {
					return []string{g.globalRegion(gl).Key}, nil
				}
			}
		}
		return nil, fmt.Errorf("unknown global %s", f[1])
	case len(f) == 1 && strings.Contains(f[0], "."):
		i := strings.LastIndex(f[0], ".")
		vt, err := g.eng.resolveType(f[0][:i], env.pkg)
		if err != nil {
			return nil, err
		}
		s, ok := vt.Go.Underlying().(*types.Struct)
		if !ok {
			return nil, fmt.Errorf("not a struct")
		}
		for j := 0; j < s.NumFields(); j++ {
			if s.Field(j).Name() == f[0][i+1:] {
				if _, esc := g.eng.escapingField(vt.Go, j); esc {
					return []string{g.cellRegion(s.Field(j).Type()).Key}, nil
				}
				return []string{g.fieldRegion(vt.Go, j).Key}, nil
			}
		}
	}
	return nil, fmt.Errorf("bad region spec %q", s)
}

// frameCheck: a write to region r at ref must be permitted by the function's modifies clause
// (objects allocated since entry may always be written).
func (g *Gen) frameCheck(st *BState, r *Region, ref string, fresh bool, pos token.Pos) {
	if !g.hasModifies || fresh {
		return
	}
	if r.Kind == "alloc" || r.Kind == "iter" {
		return
	}
	targets := g.modTargets[r.Key]
	var alts []string
	for _, t := range targets {
		if t == "*" {
			return
		}
		if ref != "" {
			alts = append(alts, fmt.Sprintf("(= %s %s)", ref, t))
		}
	}
	if ref != "" {
		alts = append(alts, fmt.Sprintf("(not (select %s %s))", g.entryAlloc, g.ownR(r, ref)))
	}
	goal := "false"
	if len(alts) > 0 {
		goal = "(or " + strings.Join(alts, " ") + ")"
	}
	a, p := g.anchor(pos)
	g.addObl(st, "F", a, p, g.frameProps(), goal, "write to "+r.Key+" outside modifies")
}

func (g *Gen) frameProps() []string { return []string{"C09", "C10"} }

// ---------- builtins ----------

func (g *Gen) doBuiltin(st *BState, in ssa.Instruction, c *ssa.CallCommon, v ssa.Value, name string) {
	switch name {
	case "len", "cap":
		x := g.val(c.Args[0])
		switch t := c.Args[0].Type().Underlying().(type) {
		case *types.Slice:
			if name == "len" {
				g.def(v, fmt.Sprintf("(s-len %s)", x))
			} else {
				g.def(v, fmt.Sprintf("(s-cap %s)", x))
			}
		case *types.Basic:
			g.def(v, fmt.Sprintf("(strlen %s)", x))
		case *types.Map:
			_, _, ln := g.mapRegions(t)
			g.def(v, fmt.Sprintf("(ite (= %s 0) 0 (select %s %s))", x, g.heapGet(st.heap, ln), x))
			g.assume(st, g.mapLenFacts(st.heap, t, x))
		case *types.Pointer:
			if at, ok := t.Elem().Underlying().(*types.Array); ok {
				g.def(v, fmt.Sprintf("%d", at.Len()))
			} else {
				g.fatalf("len of %s", t)
			}
		default:
			g.fatalf("len of %s", t)
		}
	case "append":
		g.doAppend(st, in, c, v)
	case "copy":
		g.doCopy(st, in, c, v)
	case "delete":
		if g.con != nil && len(g.con.Covers) > 0 {
			// covers clauses may name a delete(m, k) as delete#N (N by source order)
			n, k := 0, 0
			var ps []token.Pos
			for _, b := range g.fn.Blocks {
				for _, x := range b.Instrs {
					if ci, ok := x.(ssa.CallInstruction); ok {
						if bi, ok := ci.Common().Value.(*ssa.Builtin); ok && bi.Name() == "delete" {
							ps = append(ps, x.Pos())
						}
					}
				}
			}
			for _, p := range ps {
				if p < in.Pos() {
					k++
				}
			}
			n = k + 1
			g.noteSite(fmt.Sprintf("delete#%d", n), st, in, "")
		}
		mt := c.Args[0].Type().Underlying().(*types.Map)
		m, k := g.val(c.Args[0]), g.val(c.Args[1])
		dom, _, ln := g.mapRegions(mt)
		g.frameCheck(st, dom, m, g.allocs[c.Args[0]], in.Pos())
		d, l := g.heapGet(st.heap, dom), g.heapGet(st.heap, ln)
		g.heapSet(st.heap, ln, fmt.Sprintf("(ite (= %[1]s 0) %[2]s (store %[2]s %[1]s (- (select %[2]s %[1]s) (ite (select (select %[3]s %[1]s) %[4]s) 1 0))))", m, l, d, k))
		g.heapSet(st.heap, dom, fmt.Sprintf("(ite (= %[1]s 0) %[2]s (store %[2]s %[1]s (store (select %[2]s %[1]s) %[3]s false)))", m, d, k))
	case "print", "println":
	case "min", "max":
		a, b := g.val(c.Args[0]), g.val(c.Args[1])
		op := "<="
		if name == "max" {
			op = ">="
		}
		g.def(v, fmt.Sprintf("(ite (%s %s %s) %s %s)", op, a, b, a, b))
	default:
		g.fatalf("unsupported builtin %s", name)
	}
}

func (g *Gen) doAppend(st *BState, in ssa.Instruction, c *ssa.CallCommon, v ssa.Value) {
	s := g.val(c.Args[0])
	et := c.Args[0].Type().Underlying().(*types.Slice).Elem()
	es := sortOf(et)
	r := g.elemRegion(et)
	e0 := g.heapGet(st.heap, r)
	var n string
	var tAt func(j string) string
	if isString(c.Args[1].Type()) {
		t := g.val(c.Args[1])
		n = fmt.Sprintf("(strlen %s)", t)
		tAt = func(j string) string { return fmt.Sprintf("(strat %s %s)", t, j) }
	} else {
		t := g.val(c.Args[1])
		n = fmt.Sprintf("(s-len %s)", t)
		tAt = func(j string) string {
			return fmt.Sprintf("(select (select %s (s-arr %s)) (+ (s-off %s) %s))", e0, t, t, j)
		}
	}
	nN := g.fresh("app_n", "Int")
	g.assert(fmt.Sprintf("(= %s %s)", nN, n))
	newlen := g.fresh("app_len", "Int")
	g.assert(fmt.Sprintf("(= %s (+ (s-len %s) %s))", newlen, s, nN))
	g.assume(st, fmt.Sprintf("(<= %s 72057594037927936)", newlen)) // A-len
	inplace := g.fresh("app_inplace", "Bool")
	g.assert(fmt.Sprintf("(= %s (<= %s (s-cap %s)))", inplace, newlen, s))
	nr := g.freshRef(st, g.valName(v)+"_arr")
	g.assume(st, fmt.Sprintf("(= (rtype %s) 0)", nr)) // not a struct object
	ncap := g.fresh("app_cap", "Int")
	g.assume(st, fmt.Sprintf("(and (>= %s %s) (<= %s 72057594037927936) (> %s 0))", ncap, newlen, ncap, ncap))
	if es != "Opaque" {
		a1 := g.fresh("app_A", "(Array Int "+es+")")
		b1 := g.fresh("app_B", "(Array Int "+es+")")
		g.assert(fmt.Sprintf("(forall ((i Int)) (! (= (select %[1]s i) (ite (and (<= (+ (s-off %[2]s) (s-len %[2]s)) i) (< i (+ (s-off %[2]s) %[3]s))) %[4]s (select (select %[5]s (s-arr %[2]s)) i))) :pattern ((select %[1]s i))))",
			a1, s, newlen, tAt(fmt.Sprintf("(- i (+ (s-off %s) (s-len %s)))", s, s)), e0))
		// a freshly allocated array: old elements, appended elements, zeroed spare capacity
		g.assert(fmt.Sprintf("(forall ((i Int)) (! (= (select %[1]s i) (ite (and (<= 0 i) (< i (s-len %[2]s))) (select (select %[5]s (s-arr %[2]s)) (+ (s-off %[2]s) i)) (ite (and (<= (s-len %[2]s) i) (< i %[3]s)) %[4]s %[6]s))) :pattern ((select %[1]s i))))",
			b1, s, newlen, tAt(fmt.Sprintf("(- i (s-len %s))", s)), e0, zeroOf(et)))
		if g.hasModifies && !g.allocs[c.Args[0]] {
			// in-place append writes the backing array of s
			save := st.pc
			st.pc = g.namePC(fmt.Sprintf("(and %s %s (> %s 0))", st.pc, inplace, nN))
			g.frameCheck(st, r, fmt.Sprintf("(s-arr %s)", s), false, in.Pos())
			st.pc = save
		}
		g.heapSet(st.heap, r, fmt.Sprintf("(ite %s (store %s (s-arr %s) %s) (store %s %s %s))", inplace, e0, s, a1, e0, nr, b1))
	}
	g.def(v, fmt.Sprintf("(ite %[1]s (ite (and (= (s-arr %[2]s) 0) (= %[6]s 0)) nil_slice (mk-slice (s-arr %[2]s) (s-off %[2]s) %[3]s (s-cap %[2]s))) (mk-slice %[4]s 0 %[3]s %[5]s))", inplace, s, newlen, nr, ncap, nN))
}

func (g *Gen) doCopy(st *BState, in ssa.Instruction, c *ssa.CallCommon, v ssa.Value) {
	d := g.val(c.Args[0])
	et := c.Args[0].Type().Underlying().(*types.Slice).Elem()
	es := sortOf(et)
	r := g.elemRegion(et)
	e0 := g.heapGet(st.heap, r)
	var slen string
	var sAt func(j string) string
	var srcBytes func(n string) string
	if isString(c.Args[1].Type()) {
		t := g.val(c.Args[1])
		slen = fmt.Sprintf("(strlen %s)", t)
		sAt = func(j string) string { return fmt.Sprintf("(strat %s %s)", t, j) }
		srcBytes = func(n string) string { return "" }
	} else {
		t := g.val(c.Args[1])
		slen = fmt.Sprintf("(s-len %s)", t)
		sAt = func(j string) string {
			return fmt.Sprintf("(select (select %s (s-arr %s)) (+ (s-off %s) %s))", e0, t, t, j)
		}
		srcBytes = func(n string) string {
			return fmt.Sprintf("(bytesOf (select %s (s-arr %s)) (s-off %s) %s)", e0, t, t, n)
		}
	}
	n := g.fresh("copy_n", "Int")
	g.assert(fmt.Sprintf("(= %s (ite (<= (s-len %s) %s) (s-len %s) %s))", n, d, slen, d, slen))
	if es != "Opaque" {
		a1 := g.fresh("copy_A", "(Array Int "+es+")")
		g.assert(fmt.Sprintf("(forall ((i Int)) (! (= (select %[1]s i) (ite (and (<= (s-off %[2]s) i) (< i (+ (s-off %[2]s) %[3]s))) %[4]s (select (select %[5]s (s-arr %[2]s)) i))) :pattern ((select %[1]s i))))",
			a1, d, n, sAt(fmt.Sprintf("(- i (s-off %s))", d)), e0))
		if g.hasModifies && !g.allocs[c.Args[0]] {
			save := st.pc
			st.pc = g.namePC(fmt.Sprintf("(and %s (> %s 0))", st.pc, n))
			g.frameCheck(st, r, fmt.Sprintf("(s-arr %s)", d), false, in.Pos())
			st.pc = save
		}
		g.heapSet(st.heap, r, fmt.Sprintf("(store %s (s-arr %s) %s)", e0, d, a1))
		if es == "Int" && isByteSlice(c.Args[0].Type()) {
			if sb := srcBytes(n); sb != "" {
				g.assume(st, fmt.Sprintf("(= (bytesOf %s (s-off %s) %s) %s)", a1, d, n, sb))
			}
		}
	}
	if v != nil {
		g.def(v, n)
	}
}

// ---------- calls ----------

func (g *Gen) doCall(st *BState, in ssa.Instruction, c *ssa.CallCommon, v ssa.Value) {
	if b, ok := c.Value.(*ssa.Builtin); ok {
		g.doBuiltin(st, in, c, v, b.Name())
		return
	}
	if c.IsInvoke() {
		g.doInvoke(st, in, c, v)
		return
	}
	callee := c.StaticCallee()
	if callee == nil {
		g.doDynamicCall(st, in, c, v)
		return
	}
	if _, isClosure := c.Value.(*ssa.MakeClosure); isClosure {
		g.fatalf("call of closure")
		return
	}
	g.callStatic(st, in, callee, c.Args, v, "true")
}

// variantKey: dynamic-type key of interface-typed arguments built by MakeInterface at the call site.
func (g *Gen) variantKey(callee *ssa.Function, args []ssa.Value) string {
	var parts []string
	for i, a := range args {
		if mi, ok := a.(*ssa.MakeInterface); ok && i < len(callee.Params) {
			parts = append(parts, callee.Params[i].Name()+":"+typeKey(mi.X.Type()))
		} else if i < len(callee.Params) {
			if ci, ok := a.(*ssa.ChangeInterface); ok {
				parts = append(parts, callee.Params[i].Name()+":"+typeKey(ci.X.Type()))
			}
		}
	}
	return strings.Join(parts, ",")
}

type callResult struct {
	terms []string
	types []types.Type
}

// callStatic applies the contract of callee (guarded by `guard` for dispatch case splits).
func (g *Gen) callStatic(st *BState, in ssa.Instruction, callee *ssa.Function, args []ssa.Value, v ssa.Value, guard string) {
	var con *Contract
	variant := ""
	if callee.Signature.Recv() == nil || true {
		variant = g.variantKey(callee, args)
	}
	if variant != "" {
		con = g.eng.contractFor(callee, variant)
		if con != nil && con.Variant == "" {
			// a generic contract exists; fine
		}
	} else {
		con = g.eng.contractFor(callee, "")
	}
	name := shortFuncName(callee.String())
	if con == nil && g.eng.isTarget(callee) {
		if tgt, margs, ok := g.eng.forwarder(callee, args); ok {
			g.callStatic(st, in, tgt, margs, v, guard)
			return
		}
	}
	if con == nil && !g.eng.isTarget(callee) {
		// a callee outside the repository without an (assumed) contract: nothing can be proved about the
		// call; it is reported as an undischarged obligation and the results are left unconstrained
		a, pos := g.anchor(in.Pos())
		what := name
		if variant != "" {
			what += " [" + variant + "]"
		}
		g.addObl(st, "P", a+":callee-without-contract:"+mangle(what), pos, g.allProps(), "false", "call of "+what+": no contract is available for this external function (out of reach)")
		g.unconstrainedResults(st, callee.Signature, v)
		return
	}
	if con != nil && con.Trusted {
		g.usedTrusted[name+optVariant(con.Variant)] = true
	}
	// meta clauses (assumed by callers, not proved in the body) this call relies on, directly or through the
	// verified contracts of the functions the callee calls: they are assumptions of this proof too
	for _, m := range g.eng.metaDeps(callee, map[*ssa.Function]bool{}) {
		g.usedTrusted[m] = true
	}
	// bind parameters
	var params []*types.Var
	sig := callee.Signature
	if sig.Recv() != nil {
		params = append(params, sig.Recv())
	}
	for i := 0; i < sig.Params().Len(); i++ {
		params = append(params, sig.Params().At(i))
	}
	pre := st.heap.clone()
	env := g.baseEnv(pre, pre)
	env.pkg = nil
	if callee.Pkg != nil {
		env.pkg = callee.Pkg.Pkg
	}
	if con != nil && !con.FromRepo && con.PkgPath != "" {
		if tp := g.eng.typesPkg(con.PkgPath); tp != nil {
			env.pkg = tp
		}
	}
	env.callee = callee
	argVals := map[string]EnvVal{}
	for i, p := range params {
		if i >= len(args) {
			break
		}
		ev := g.argEnvVal(st, args[i], p.Type())
		pname := p.Name()
		if pname == "" || pname == "_" {
			pname = fmt.Sprintf("arg%d", i)
		}
		env.vars[pname] = ev
		argVals[pname] = ev
	}
	g.callCount[name]++
	rec := &callRecord{callee: name, n: g.callOrdinal(in, name), pre: pre, args: argVals}
	g.calls = append(g.calls, rec)
	a, pos := g.anchor(in.Pos())
	g.callSiteObls(st, in, callee, rec, argVals, a, pos, guard)
	if g.con != nil && g.con.HasCallees && g.eng.isTarget(callee) {
		ok := false
		for _, c := range g.con.Callees {
			if c == callee.Name() {
				ok = true
			}
		}
		if !ok {
			props := g.con.CalleeTags
			if len(props) == 0 {
				props = g.allProps()
			}
			g.addObl(st, "R", a+":callee-not-allowed:"+callee.Name(), pos, props, "false", "the contract lists the repository functions this function may call ("+strings.Join(g.con.Callees, ", ")+"); "+callee.Name()+" is not among them")
		}
	}
	calleeInv := g.eng.participates(callee) && g.fn.Pkg != nil && callee.Pkg != nil && g.fn.Pkg.Pkg == callee.Pkg.Pkg
	if calleeInv || (con != nil && con.NeedsInv) {
		g.checkPkgInvs(st, "P", a+":pkginv:", pos, guard)
	}
	if con != nil {
		g.bindLets(con, env)
		for _, r := range con.Requires {
			if r.Assumed {
				continue
			}
			t := g.trBool(r.Expr, env, r)
			if guard != "true" {
				t = fmt.Sprintf("(=> %s %s)", guard, t)
			}
			g.addObl(st, "P", a+":"+r.Name, pos, g.allProps(), t, r.Src)
			g.assume(st, t)
		}
	}
	// make sure every region the contract talks about exists before the frame is computed
	if con != nil {
		scratch := g.baseEnv(st.heap.clone(), pre.clone())
		scratch.pkg = env.pkg
		scratch.callee = callee
		for k, ev := range env.vars {
			scratch.vars[k] = ev
		}
		g.bindLets(con, scratch)
		var rts []string
		var rtys []types.Type
		for i := 0; i < callee.Signature.Results().Len(); i++ {
			t := callee.Signature.Results().At(i).Type()
			rts = append(rts, zeroOf(t))
			rtys = append(rtys, t)
		}
		g.bindResults(scratch, callee, rts, rtys)
		nf := len(g.fatal)
		g.touched = map[string]bool{}
		for _, e := range con.Ensures {
			if usesInternals(e.Expr, con) {
				continue
			}
			g.trBool(e.Expr, scratch, e)
		}
		g.fatal = g.fatal[:nf]
	}
	touched := g.touched
	g.touched = nil
	// frame: havoc written regions
	ws, targets := g.calleeWrites(callee, con, env)
	if con != nil && con.Trusted && con.HasMod {
		// an assumed contract: of the regions the body may write at objects it allocates, only those its
		// ensures clauses describe are given new versions (the others keep their values: nothing is known
		// about fresh objects there, and nothing allocated before the call is written)
		for k := range ws {
			if _, declared := targets[k]; !declared && k != "alloc" && !touched[k] {
				delete(ws, k)
			}
		}
	}
	post := st.heap
	alPre := g.heapGet(pre, g.allocRegion())
	wkeys := sortedKeys(ws)
	for i, k := range wkeys {
		if k == "alloc" { // the allocation map first: the frames of the other regions refer to its new version
			copy(wkeys[1:i+1], wkeys[:i])
			wkeys[0] = "alloc"
		}
	}
	for _, k := range wkeys {
		r := g.regionByKey(k)
		if r == nil {
			continue
		}
		old := g.heapGet(pre, r)
		n := g.newVersion(r)
		post[k] = n
		tg, declared := targets[k]
		switch {
		case r.Kind == "alloc":
			g.assume(st, fmt.Sprintf("(and (not (select %s 0)) (forall ((r Int)) (! (=> (select %s r) (select %s r)) :pattern ((select %s r)))))", n, old, n, n))
		case r.Kind == "global" || r.Kind == "ghost" || r.Kind == "iter":
			if !ws[k] {
				g.assume(st, fmt.Sprintf("(= %s %s)", n, old))
			}
		case declared && !containsStar(tg):
			var ne []string
			for _, t := range tg {
				ne = append(ne, fmt.Sprintf("(not (= r %s))", t))
			}
			g.assume(st, fmt.Sprintf("(forall ((r Int)) (! (=> (or (and (select %s %s) %s) %s) (= (select %s r) (select %s r))) :pattern ((select %s r))))", alPre, g.ownR(r, "r"), strings.Join(ne, " "), g.notFreshOf(r, post), n, old, n))
			g.callFrameCheck(st, r, tg, in.Pos())
		case !ws[k]:
			g.assume(st, fmt.Sprintf("(forall ((r Int)) (! (=> (or (select %s %s) %s) (= (select %s r) (select %s r))) :pattern ((select %s r))))", alPre, g.ownR(r, "r"), g.notFreshOf(r, post), n, old, n))
		default:
			g.callFrameCheck(st, r, []string{"*"}, in.Pos())
		}
		if guard != "true" {
			// when the guard is false the call did not happen
			g.assume(st, fmt.Sprintf("(=> (not %s) (= %s %s))", guard, n, old))
		}
	}
	// results
	res := sig.Results()
	var rterms []string
	var rtypes []types.Type
	for i := 0; i < res.Len(); i++ {
		t := res.At(i).Type()
		rn := g.fresh(fmt.Sprintf("r_%s_%d", mangle(callee.Name()), i), sortOf(t))
		rterms = append(rterms, rn)
		rtypes = append(rtypes, t)
		var facts []string
		if a := g.typeAssume(rn, t); a != "" {
			facts = append(facts, a)
		}
		facts = append(facts, g.allocatedFact(post, rn, t)...)
		if len(facts) > 0 {
			g.assume(st, "(and "+strings.Join(facts, " ")+")")
		}
	}
	rec.post = post.clone()
	rec.results = rterms
	rec.resTypes = rtypes
	if con != nil {
		penv := g.baseEnv(post, pre)
		penv.pkg = env.pkg
		penv.callee = callee
		for k, ev := range env.vars {
			penv.vars[k] = ev
		}
		g.bindLets(con, penv)
		g.bindResults(penv, callee, rterms, rtypes)
		for _, e := range con.Ensures {
			if usesInternals(e.Expr, con) {
				continue // speaks about the callee's own intermediate calls: not visible to callers
			}
			t := g.trBool(e.Expr, penv, e)
			if guard != "true" {
				t = fmt.Sprintf("(=> %s %s)", guard, t)
			}
			g.assume(st, t)
		}
	}
	g.specialCallFacts(st, callee, args, rterms)
	if calleeInv && guard == "true" {
		g.assumePkgInvs(st, callee)
	} else if calleeInv {
		for _, gi := range g.pkgInvs(callee) {
			g.assume(st, fmt.Sprintf("(=> %s %s)", guard, g.invInstance(gi, callee, st.heap)))
		}
	}
	rec.pcAfter = st.pc
	if v != nil {
		switch len(rterms) {
		case 0:
		case 1:
			g.vals[v] = rterms[0]
		default:
			g.tuples[v] = rterms
		}
	}
}

func optVariant(v string) string {
	if v == "" {
		return ""
	}
	return " [" + v + "]"
}

func containsStar(ts []string) bool {
	for _, t := range ts {
		if t == "*" {
			return true
		}
	}
	return false
}

// callFrameCheck: what the callee may write must be within what this function may write.
func (g *Gen) callFrameCheck(st *BState, r *Region, calleeTargets []string, pos token.Pos) {
	if !g.hasModifies {
		return
	}
	if g.callGuard != "" && g.callGuard != "true" {
		// one alternative of a call through a function value: only to be shown when that alternative is taken
		save := st.pc
		st.pc = g.namePC(fmt.Sprintf("(and %s %s)", st.pc, g.callGuard))
		defer func() { st.pc = save }()
	}
	if r.Kind == "alloc" || r.Kind == "iter" {
		return
	}
	mine := g.modTargets[r.Key]
	if containsStar(mine) {
		return
	}
	for _, ct := range calleeTargets {
		var alts []string
		if ct != "*" {
			for _, t := range mine {
				alts = append(alts, fmt.Sprintf("(= %s %s)", ct, t))
			}
			alts = append(alts, fmt.Sprintf("(not (select %s %s))", g.entryAlloc, g.ownR(r, ct)))
		}
		goal := "false"
		if len(alts) > 0 {
			goal = "(or " + strings.Join(alts, " ") + ")"
		}
		a, p := g.anchor(pos)
		g.addObl(st, "F", a+":"+r.Key, p, g.frameProps(), goal, "callee writes "+r.Key+" outside modifies")
	}
}

func (g *Gen) bindLets(con *Contract, env *Env) {
	for _, l := range con.Lets {
		env.lets[l.Name] = l.Expr
	}
}

func (g *Gen) bindResults(env *Env, fn *ssa.Function, terms []string, tys []types.Type) {
	res := fn.Signature.Results()
	for i := range terms {
		ev := EnvVal{term: terms[i], ty: VType{Go: tys[i]}}
		env.vars[fmt.Sprintf("result.%d", i)] = ev
		if n := res.At(i).Name(); n != "" && n != "_" {
			env.vars[n] = ev
		}
		if len(terms) == 1 {
			env.vars["result"] = ev
		}
		if i == len(terms)-1 && types.Identical(tys[i], types.Universe.Lookup("error").Type()) {
			if _, ok := env.vars["err"]; !ok {
				env.vars["err"] = ev
			}
		}
	}
}

// argEnvVal: the contract-level view of an argument (a term, and a location if the argument is an address).
func (g *Gen) argEnvVal(st *BState, a ssa.Value, pt types.Type) EnvVal {
	// see through interface construction for pointer arguments
	inner := a
	if mi, ok := a.(*ssa.MakeInterface); ok {
		inner = mi.X
	}
	if l, ok := g.locs[inner]; ok {
		return EnvVal{term: "0", ty: VType{Go: inner.Type()}, loc: l}
	}
	if gl, ok := inner.(*ssa.Global); ok {
		return EnvVal{term: "0", ty: VType{Go: inner.Type()}, loc: &Loc{Kind: "global", Region: g.globalRegion(gl), Type: deref(gl.Type())}}
	}
	if inner != a {
		// interface holding a plain value: expose both the boxed term and the payload type
		return EnvVal{term: g.val(inner), ty: VType{Go: inner.Type()}, boxed: g.val(a)}
	}
	return EnvVal{term: g.val(a), ty: VType{Go: a.Type()}}
}

// calleeWrites returns the regions a call may write: key -> wholesale?; plus declared targets.
func (g *Gen) calleeWrites(callee *ssa.Function, con *Contract, env *Env) (map[string]bool, map[string][]string) {
	ws := map[string]bool{}
	targets := map[string][]string{}
	if con != nil && con.HasMod {
		for _, item := range con.Modifies {
			keys, ref, err := g.modItem(item, env)
			if err != nil {
				g.fatalf("modifies of %s: %q: %v", callee.Name(), item, err)
				continue
			}
			for _, k := range keys {
				ws[k] = true
				targets[k] = append(targets[k], ref)
			}
		}
		if g.eng.isTarget(callee) {
			for k, w := range g.eng.writeSet(callee) {
				if strings.HasPrefix(k, "IT.") {
					continue // iteration state belongs to one activation: a (recursive) callee has its own
				}
				if _, ok := ws[k]; !ok {
					_ = w
					if _, known := g.regions[k]; !known {
						continue // a region this function never mentions
					}
					ws[k] = false // only on fresh objects (guaranteed by the callee's own F obligations)
				}
			}
			ws["alloc"] = true
		} else if !con.Pure {
			ws["alloc"] = true
		}
		return ws, targets
	}
	if !g.eng.isTarget(callee) {
		// external with contract but no modifies: treated as pure apart from allocation
		ws["alloc"] = true
		return ws, targets
	}
	for k, w := range g.eng.writeSet(callee) {
		if strings.HasPrefix(k, "IT.") {
			continue
		}
		ws[k] = w
	}
	return ws, targets
}

// doInvoke: interface method call, case split over implementations in the loaded program.
func (g *Gen) doInvoke(st *BState, in ssa.Instruction, c *ssa.CallCommon, v ssa.Value) {
	recv := g.val(c.Value)
	it := c.Value.Type().Underlying().(*types.Interface)
	g.safety(st, "S.nil", in.Pos(), fmt.Sprintf("(not (= %s nil_iface))", recv))
	impls := g.eng.implementers(it, c.Method)
	if len(impls) == 0 || !g.eng.localInterface(c.Value.Type()) {
		g.invokeExternal(st, in, c, v)
		return
	}
	// results shared across cases
	sig := c.Signature()
	var rterms []string
	for i := 0; i < sig.Results().Len(); i++ {
		rterms = append(rterms, g.fresh(fmt.Sprintf("r_%s_%d", c.Method.Name(), i), sortOf(sig.Results().At(i).Type())))
	}
	preHeap := st.heap.clone()
	nBefore := len(g.calls)
	var guards []string
	for _, im := range impls {
		rt := im.Signature.Recv().Type()
		_, unbox, tag := g.boxFn(rt)
		guard := g.namePC(fmt.Sprintf("(= (itype %s) %d)", recv, tag))
		guards = append(guards, guard)
		// synthesize receiver value
		rv := &synthValue{name: g.fresh("recv", sortOf(rt)), typ: rt}
		g.assert(fmt.Sprintf("(= %s (%s %s))", rv.name, unbox, recv))
		g.vals[rv] = rv.name
		args := append([]ssa.Value{rv}, c.Args...)
		tmp := &synthValue{name: "", typ: nil}
		g.callStatic(st, in, im, args, tmp, guard)
		// tie results
		var got []string
		if t, ok := g.tuples[tmp]; ok {
			got = t
		} else if t, ok := g.vals[tmp]; ok {
			got = []string{t}
		}
		for i := range got {
			if i < len(rterms) {
				g.assume(st, fmt.Sprintf("(=> %s (= %s %s))", guard, rterms[i], got[i]))
			}
		}
	}
	g.assume(st, "(or "+strings.Join(guards, " ")+")")
	g.joinedRecord(st, nBefore, "(interface)."+c.Method.Name(), preHeap, rterms, sig)
	if v != nil {
		switch len(rterms) {
		case 0:
		case 1:
			g.vals[v] = rterms[0]
		default:
			g.tuples[v] = rterms
		}
	}
}

// joinedRecord: after the case split of an interface or function-value call, the label of the call (and any
// `bind` on it) denotes the call as a whole: the results shared by all cases, the heap before the split and
// the heap after it -- not the record of whichever candidate happened to be processed last.
func (g *Gen) joinedRecord(st *BState, nBefore int, callee string, pre Heap, rterms []string, sig *types.Signature) {
	if len(g.calls) <= nBefore {
		return
	}
	last := g.calls[len(g.calls)-1]
	var tys []types.Type
	for i := 0; i < sig.Results().Len(); i++ {
		tys = append(tys, sig.Results().At(i).Type())
	}
	g.calls = append(g.calls, &callRecord{callee: callee, n: last.n, pre: pre, post: st.heap.clone(), results: rterms, resTypes: tys, pcAfter: st.pc, args: last.args})
}

// synthValue is a placeholder ssa.Value for receivers/results synthesised by the generator.
type synthValue struct {
	name string
	typ  types.Type
}

func (s *synthValue) Name() string                  { return s.name }
func (s *synthValue) String() string                { return s.name }
func (s *synthValue) Type() types.Type              { return s.typ }
func (s *synthValue) Parent() *ssa.Function         { return nil }
func (s *synthValue) Referrers() *[]ssa.Instruction { return nil }
func (s *synthValue) Pos() token.Pos                { return token.NoPos }

func (g *Gen) invokeExternal(st *BState, in ssa.Instruction, c *ssa.CallCommon, v ssa.Value) {
	key := "iface " + typeKey(c.Value.Type()) + "." + c.Method.Name()
	pure := g.eng.pureIfaceMethods[key] || (typeKey(c.Value.Type()) == "error" && c.Method.Name() == "Error")
	if !pure {
		a, pos := g.anchor(in.Pos())
		g.addObl(st, "P", a+":method-without-contract:"+mangle(key), pos, g.allProps(), "false", "invoke of "+key+": no contract is available for this external method (out of reach)")
	}
	sig := c.Signature()
	var rterms []string
	for i := 0; i < sig.Results().Len(); i++ {
		t := sig.Results().At(i).Type()
		rn := g.fresh(fmt.Sprintf("r_%s_%d", c.Method.Name(), i), sortOf(t))
		if a := g.typeAssume(rn, t); a != "" {
			g.assume(st, a)
		}
		rterms = append(rterms, rn)
	}
	if v != nil {
		switch len(rterms) {
		case 0:
		case 1:
			g.vals[v] = rterms[0]
		default:
			g.tuples[v] = rterms
		}
	}
}

// doDynamicCall: call through a function value; case split over address-taken functions of the same signature.
func (g *Gen) doDynamicCall(st *BState, in ssa.Instruction, c *ssa.CallCommon, v ssa.Value) {
	fv := g.val(c.Value)
	g.safety(st, "S.nil", in.Pos(), fmt.Sprintf("(not (= %s 0))", fv))
	cands := g.eng.addressTaken(c.Signature())
	if len(cands) == 0 {
		g.fatalf("dynamic call with no known targets: %s", in.String())
		return
	}
	sig := c.Signature()
	var rterms []string
	for i := 0; i < sig.Results().Len(); i++ {
		rterms = append(rterms, g.fresh(fmt.Sprintf("r_dyn_%d", i), sortOf(sig.Results().At(i).Type())))
	}
	g.dynCallSiteObls(st, in, c, cands[0])
	var guards []string
	for _, f := range cands {
		guard := g.namePC(fmt.Sprintf("(= %s %d)", fv, g.eng.funcTag(f)))
		guards = append(guards, guard)
		tmp := &synthValue{}
		g.callGuard = guard
		g.callStatic(st, in, f, c.Args, tmp, guard)
		g.callGuard = ""
		var got []string
		if t, ok := g.tuples[tmp]; ok {
			got = t
		} else if t, ok := g.vals[tmp]; ok {
			got = []string{t}
		}
		for i := range got {
			if i < len(rterms) {
				g.assume(st, fmt.Sprintf("(=> %s (= %s %s))", guard, rterms[i], got[i]))
			}
		}
	}
	g.assume(st, "(or "+strings.Join(guards, " ")+")")
	if v != nil {
		switch len(rterms) {
		case 0:
		case 1:
			g.vals[v] = rterms[0]
		default:
			g.tuples[v] = rterms
		}
	}
}

// specialCallFacts: built-in knowledge about a few library functions that depends on constant arguments.
func (g *Gen) specialCallFacts(st *BState, callee *ssa.Function, args []ssa.Value, res []string) {
	switch callee.String() {
	case "fmt.Errorf":
		if len(res) != 1 {
			return
		}
		r := res[0]
		g.assume(st, fmt.Sprintf("(not (= %s nil_iface))", r))
		format, ok := args[0].(*ssa.Const)
		if !ok || format.Value == nil {
			// unknown format: nothing known about wrapping
			return
		}
		fs := constant.StringVal(format.Value)
		wpos := wrapArgIndex(fs)
		attrs := g.eng.errorAttrs()
		if wpos < 0 {
			for _, a := range attrs {
				g.declareSpecFn(a)
				g.assume(st, fmt.Sprintf("(not (%s %s))", a, r))
			}
			g.declareSpecFn("unwrap")
			g.assume(st, fmt.Sprintf("(= (unwrap %s) nil_iface)", r))
			return
		}
		// the wrapped argument is element wpos of the variadic slice
		va := g.val(args[1])
		er := g.elemRegion(args[1].Type().Underlying().(*types.Slice).Elem())
		w := fmt.Sprintf("(select (select %s (s-arr %s)) (+ (s-off %s) %d))", g.heapGet(st.heap, er), va, va, wpos)
		for _, a := range attrs {
			g.declareSpecFn(a)
			g.assume(st, fmt.Sprintf("(= (%s %s) (%s %s))", a, r, a, w))
		}
		g.declareSpecFn("unwrap")
		g.assume(st, fmt.Sprintf("(= (unwrap %s) %s)", r, w))
	}
}

// wrapArgIndex returns the index (among the variadic operands) consumed by the first %w verb, or -1.
func wrapArgIndex(format string) int {
	arg := 0
	for i := 0; i < len(format); i++ {
		if format[i] != '%' {
			continue
		}
		i++
		if i >= len(format) {
			break
		}
		if format[i] == '%' {
			continue
		}
		for i < len(format) && strings.ContainsRune("+-# 0123456789.", rune(format[i])) {
			i++
		}
		if i >= len(format) {
			break
		}
		if format[i] == 'w' {
			return arg
		}
		arg++
	}
	return -1
}

// ---------- returns ----------

func (g *Gen) doReturn(st *BState, in *ssa.Return) {
	g.retCount++
	if *flagCanary {
		// vacuity canary: `false` must NOT be provable at a reachable return
		_, pos := g.anchor(in.Pos())
		o := g.addObl(st, "V", fmt.Sprintf("return%d:reachable", g.retCount), pos, g.allProps(), "false", "canary: assumptions on the path to this return are consistent")
		o.MustBeSat = true
	}
	{
		_, pos := g.anchor(in.Pos())
		if pos == "" {
			pos = g.posString(g.fn.Pos())
		}
		rst := &BState{heap: st.heap, pc: st.pc, inv: cloneInv(st.inv), prev: cloneInv(st.prev)}
		g.checkPkgInvs(rst, "Q", fmt.Sprintf("return%d:pkginv:", g.retCount), pos, "true")
		g.deferCovers(nil, in.Block(), rst, pos)
	}
	if g.con == nil {
		return
	}
	env := g.baseEnv(st.heap, g.entryHeap)
	var terms []string
	var tys []types.Type
	for _, r := range in.Results {
		terms = append(terms, g.val(r))
		tys = append(tys, r.Type())
	}
	// result types per signature
	res := g.fn.Signature.Results()
	for i := range tys {
		tys[i] = res.At(i).Type()
	}
	g.bindResults(env, g.fn, terms, tys)
	g.bindLets(g.con, env)
	g.bindCallBindings(env)
	a, pos := g.anchor(in.Pos())
	if pos == "" {
		pos = g.posString(g.fn.Pos())
	}
	_ = a
	for _, e := range g.con.Ensures {
		if e.Meta != "" {
			continue
		}
		if !g.wantProps(g.clauseProps(e, g.allProps())) {
			continue
		}
		t := g.trBool(e.Expr, env, e)
		g.addObl(st, "Q", fmt.Sprintf("%s@return%d", e.Name, g.retCount), pos, g.clauseProps(e, g.allProps()), t, e.Src)
	}
}

func (g *Gen) bindCallBindings(env *Env) {
	for _, b := range g.con.Binds {
		callee := expandAliases(b.Callee)
		var rec *callRecord
		for _, r := range g.calls {
			if (r.callee == b.Callee || r.callee == shortFuncName(callee) || strings.HasSuffix(r.callee, "."+b.Callee) || strings.HasSuffix(r.callee, ")."+b.Callee)) && r.n == b.N {
				rec = r
			}
		}
		idx := 0
		if b.Result != "" {
			fmt.Sscanf(b.Result, "%d", &idx)
		}
		if rec == nil {
			// the call has not happened on any path to this return: the name denotes an arbitrary value
			// (clauses mention it under reached(<label>), which is false here)
			if t := g.bindResultType(b, idx); t != nil {
				env.vars[b.Name] = EnvVal{term: g.fresh("unbound_"+b.Name, sortOf(t)), ty: VType{Go: t}}
			}
			continue
		}
		if idx < len(rec.results) {
			env.vars[b.Name] = EnvVal{term: rec.results[idx], ty: VType{Go: rec.resTypes[idx]}}
		}
		env.labels[b.Callee+"#"+fmt.Sprint(b.N)] = rec
	}
	for _, r := range g.calls {
		short := r.callee
		if i := strings.LastIndex(short, "."); i >= 0 {
			short = short[i+1:]
		}
		env.labels[fmt.Sprintf("%s#%d", short, r.n)] = r
	}
}

// forwarder: a contract-less function of the target packages whose body is a single call of a static
// callee with its own parameters (or constants) as arguments, returning that call's results unchanged.
// A call of such a function is verified as a call of the inner callee (one level of inlining).
func (e *Engine) forwarder(fn *ssa.Function, args []ssa.Value) (*ssa.Function, []ssa.Value, bool) {
	if len(fn.Blocks) == 0 || len(fn.Blocks) > 2 {
		return nil, nil, false
	}
	if len(fn.Blocks) == 2 && len(fn.Blocks[1].Preds) != 0 {
		return nil, nil, false
	}
	var call *ssa.Call
	var ret *ssa.Return
	extracts := map[ssa.Value]int{}
	for _, in := range fn.Blocks[0].Instrs {
		switch x := in.(type) {
		case *ssa.DebugRef:
		case *ssa.Call:
			if call != nil {
				return nil, nil, false
			}
			call = x
		case *ssa.Extract:
			if call == nil || x.Tuple != ssa.Value(call) {
				return nil, nil, false
			}
			extracts[x] = x.Index
		case *ssa.Return:
			ret = x
		default:
			return nil, nil, false
		}
	}
	if call == nil || ret == nil || call.Call.IsInvoke() || call.Call.StaticCallee() == nil {
		return nil, nil, false
	}
	if _, isB := call.Call.Value.(*ssa.Builtin); isB {
		return nil, nil, false
	}
	switch len(ret.Results) {
	case 0:
	case 1:
		if ret.Results[0] != ssa.Value(call) {
			return nil, nil, false
		}
	default:
		for i, r := range ret.Results {
			if idx, ok := extracts[r]; !ok || idx != i {
				return nil, nil, false
			}
		}
	}
	var margs []ssa.Value
	for _, a := range call.Call.Args {
		switch x := a.(type) {
		case *ssa.Parameter:
			idx := -1
			for i, p := range fn.Params {
				if p == x {
					idx = i
				}
			}
			if idx < 0 || idx >= len(args) {
				return nil, nil, false
			}
			margs = append(margs, args[idx])
		case *ssa.Const:
			margs = append(margs, x)
		default:
			return nil, nil, false
		}
	}
	return call.Call.StaticCallee(), margs, true
}

// notFreshOf: condition (over bound variable r) under which r cannot be an object of region's type that
// the callee allocated: r is still unallocated afterwards, or (for struct field regions) r was not
// allocated as that struct type.
func (g *Gen) notFreshOf(r *Region, post Heap) string {
	alPost := g.heapGet(post, g.allocRegion())
	if r.Kind == "field" && r.StructTag > 0 {
		return fmt.Sprintf("(not (select %s r)) (not (= (rtype r) %d))", alPost, r.StructTag)
	}
	if r.Kind == "cell" && g.eng.escCells[r.Key] {
		// a field cell paddr(o, k) can only be new if o is a new object of the struct type that has field k
		var owners []string
		for _, o := range g.eng.escOwners[r.Key] {
			owners = append(owners, fmt.Sprintf("(and (= (pinv2 r) %d) (= (rtype (pinv1 r)) %d))", o[0], o[1]))
		}
		return fmt.Sprintf("(not (select %s (own r))) (and (< r 0) (not (or false %s)))", alPost, strings.Join(owners, " "))
	}
	return fmt.Sprintf("(not (select %s %s))", alPost, g.ownR(r, "r"))
}

func (g *Gen) unconstrainedResults(st *BState, sig *types.Signature, v ssa.Value) {
	var rterms []string
	for i := 0; i < sig.Results().Len(); i++ {
		t := sig.Results().At(i).Type()
		rn := g.fresh(fmt.Sprintf("r_ext_%d", i), sortOf(t))
		if a := g.typeAssume(rn, t); a != "" {
			g.assume(st, a)
		}
		if fs := g.allocatedFact(st.heap, rn, t); len(fs) > 0 {
			g.assume(st, "(and "+strings.Join(fs, " ")+")")
		}
		rterms = append(rterms, rn)
	}
	if v != nil {
		switch len(rterms) {
		case 0:
		case 1:
			g.vals[v] = rterms[0]
		default:
			g.tuples[v] = rterms
		}
	}
}

// usesInternals: the clause mentions a bind name of the contract or a call label (reached/at/pre).
func usesInternals(e CExpr, con *Contract) bool {
	found := false
	var walk func(x CExpr)
	walk = func(x CExpr) {
		if found || x == nil {
			return
		}
		switch x := x.(type) {
		case *CIdent:
			for _, b := range con.Binds {
				if b.Name == x.Name {
					found = true
				}
			}
		case *CUnary:
			walk(x.X)
		case *CBinary:
			walk(x.X)
			walk(x.Y)
		case *CCall:
			if x.Fn == "reached" || x.Fn == "at" || x.Fn == "pre" {
				found = true
				return
			}
			for _, a := range x.Args {
				walk(a)
			}
		case *CField:
			walk(x.X)
		case *CIndex:
			walk(x.X)
			walk(x.I)
		case *CSlice:
			walk(x.X)
			walk(x.Lo)
			walk(x.Hi)
		case *CCond:
			walk(x.C)
			walk(x.A)
			walk(x.B)
		case *CQuant:
			walk(x.Body)
		}
	}
	walk(e)
	return found
}

// isForwarder: fn is a contract-less one-call wrapper (see forwarder); it is verified at its call sites.
func (e *Engine) isForwarder(fn *ssa.Function) bool {
	if len(e.contracts[fn.String()]) > 0 {
		return false
	}
	dummy := make([]ssa.Value, len(fn.Params))
	for i, p := range fn.Params {
		dummy[i] = p
	}
	_, _, ok := e.forwarder(fn, dummy)
	return ok
}

// bindResultType: the static type of result idx of the callee a bind refers to (found among the calls in the body).
func (g *Gen) bindResultType(b BindDef, idx int) types.Type {
	for _, blk := range g.fn.Blocks {
		for _, in := range blk.Instrs {
			ci, ok := in.(ssa.CallInstruction)
			if !ok {
				continue
			}
			c := ci.Common()
			name := ""
			if c.IsInvoke() {
				name = c.Method.Name()
			} else if sc := c.StaticCallee(); sc != nil {
				name = sc.Name()
			}
			if name == b.Callee || strings.HasSuffix(b.Callee, "."+name) {
				res := c.Signature().Results()
				if idx < res.Len() {
					return res.At(idx).Type()
				}
			}
		}
	}
	return nil
}

// callOrdinal: the 1-based rank, in source order, of this call among the calls in the function body that
// may reach the same callee (labels such as findObject#2 therefore follow the program text, not the order
// in which the generator visits blocks).
func (g *Gen) callOrdinal(in ssa.Instruction, name string) int {
	if g.callOrd == nil {
		g.callOrd = map[string]map[ssa.Instruction]int{}
	}
	m, ok := g.callOrd[name]
	if !ok {
		m = map[ssa.Instruction]int{}
		short := name
		if i := strings.LastIndex(short, "."); i >= 0 {
			short = short[i+1:]
		}
		type site struct {
			in  ssa.Instruction
			pos token.Pos
			idx int
		}
		var sites []site
		k := 0
		for _, b := range g.fn.Blocks {
			for _, x := range b.Instrs {
				k++
				ci, ok := x.(ssa.CallInstruction)
				if !ok {
					continue
				}
				c := ci.Common()
				cn := ""
				if c.IsInvoke() {
					cn = c.Method.Name()
				} else if sc := c.StaticCallee(); sc != nil {
					cn = sc.Name()
					if fw, _, ok := g.eng.forwarder(sc, c.Args); ok && g.eng.isForwarder(sc) {
						cn = fw.Name()
					}
				}
				if cn == short {
					sites = append(sites, site{x, x.Pos(), k})
				}
			}
		}
		sort.Slice(sites, func(i, j int) bool {
			if sites[i].pos != sites[j].pos {
				return sites[i].pos < sites[j].pos
			}
			return sites[i].idx < sites[j].idx
		})
		for i, st := range sites {
			m[st.in] = i + 1
		}
		g.callOrd[name] = m
	}
	if n, ok := m[in]; ok {
		return n
	}
	return g.callCount[name]
}

// callSiteObls: `callsite LABEL name: expr` clauses of the function being verified that name this call.
func (g *Gen) callSiteObls(st *BState, in ssa.Instruction, callee *ssa.Function, rec *callRecord, args map[string]EnvVal, anchor, pos, guard string) {
	if g.con == nil || (len(g.con.CallSites) == 0 && len(g.con.Covers) == 0) {
		return
	}
	short := rec.callee
	if i := strings.LastIndex(short, "."); i >= 0 {
		short = short[i+1:]
	}
	label := fmt.Sprintf("%s#%d", short, rec.n)
	g.noteSite(label, st, in, guard)
	for _, cl := range g.con.CallSites {
		if cl.Label != label {
			continue
		}
		cl.Loop = 1 // seen
		g.siteCanary(st, label, pos)
		env := g.baseEnv(st.heap, g.entryHeap)
		b := in.Block()
		params := env.vars
		env.vars = map[string]EnvVal{}
		g.namedValues(b, env)
		for n, ev := range params {
			if _, ok := env.vars[n]; !ok {
				env.vars[n] = ev
			}
		}
		g.addrNames(b, true, env)
		for n, ev := range args {
			env.vars["arg_"+n] = ev
		}
		t := g.trBool(cl.Expr, env, cl)
		if guard != "true" {
			t = fmt.Sprintf("(=> %s %s)", guard, t)
		}
		g.addObl(st, "A", anchor+":"+cl.Name, pos, g.clauseProps(cl, g.allProps()), t, cl.Src)
	}
}

// siteCanary: the call a call-site or covers clause is about must be reachable (once per label): a clause on a call
// that the assumptions make dead holds vacuously, and the per-function canaries do not see that.
func (g *Gen) siteCanary(st *BState, label, pos string) {
	if !*flagCanary {
		return
	}
	if g.siteCanaries == nil {
		g.siteCanaries = map[string]bool{}
	}
	if g.siteCanaries[label] {
		return
	}
	g.siteCanaries[label] = true
	o := g.addObl(st, "V", "site:"+label+":can-be-reached", pos, g.allProps(), "false", "canary: the call this clause is about is reachable under the function's assumptions")
	o.MustBeSat = true
}

// ownR: the reference whose allocation decides whether address ref of region r exists: the address
// itself, or -- for the cells of a type some struct field of which has its address taken -- its owner.
func (g *Gen) ownR(r *Region, ref string) string {
	if r != nil && r.Kind == "cell" && g.eng.escCells[r.Key] {
		return "(own " + ref + ")"
	}
	return ref
}

func (g *Gen) ownT(t types.Type, ref string) string {
	if p, ok := t.Underlying().(*types.Pointer); ok && g.eng.escCells["C."+mangle(typeKey(p.Elem().Underlying()))] {
		return "(own " + ref + ")"
	}
	return ref
}

// dynName: how a call through a function value is labelled in call-site clauses: the name of the field or
// variable the function value is read from (s.step(s, c) is "step").
func dynName(v ssa.Value) string {
	switch x := v.(type) {
	case *ssa.UnOp:
		if fa, ok := x.X.(*ssa.FieldAddr); ok {
			if st, ok := deref(fa.X.Type()).Underlying().(*types.Struct); ok {
				return st.Field(fa.Field).Name()
			}
		}
		return dynName(x.X)
	case *ssa.Field:
		if st, ok := x.X.Type().Underlying().(*types.Struct); ok {
			return st.Field(x.Field).Name()
		}
	case *ssa.Parameter:
		return x.Name()
	case *ssa.Alloc:
		return x.Comment
	}
	return ""
}

// dynCallSiteObls: call-site clauses on a call through a function value (label <name>#N, N by source order);
// arg_<param> uses the parameter names of the candidate functions (they share a signature).
func (g *Gen) dynCallSiteObls(st *BState, in ssa.Instruction, c *ssa.CallCommon, proto *ssa.Function) {
	if g.con == nil || (len(g.con.CallSites) == 0 && len(g.con.Covers) == 0) {
		return
	}
	name := dynName(c.Value)
	if name == "" {
		return
	}
	type site struct {
		in  ssa.Instruction
		pos token.Pos
	}
	var sites []site
	for _, b := range g.fn.Blocks {
		for _, x := range b.Instrs {
			if ci, ok := x.(ssa.CallInstruction); ok {
				cc := ci.Common()
				if !cc.IsInvoke() && cc.StaticCallee() == nil {
					if _, isB := cc.Value.(*ssa.Builtin); !isB && dynName(cc.Value) == name {
						sites = append(sites, site{x, x.Pos()})
					}
				}
			}
		}
	}
	sort.SliceStable(sites, func(i, j int) bool { return sites[i].pos < sites[j].pos })
	n := 0
	for i, s := range sites {
		if s.in == in {
			n = i + 1
		}
	}
	label := fmt.Sprintf("%s#%d", name, n)
	g.noteSite(label, st, in, "")
	a, pos := g.anchor(in.Pos())
	for _, cl := range g.con.CallSites {
		if cl.Label != label {
			continue
		}
		cl.Loop = 1 // seen
		g.siteCanary(st, label, pos)
		env := g.baseEnv(st.heap, g.entryHeap)
		params := env.vars
		env.vars = map[string]EnvVal{}
		g.namedValues(in.Block(), env)
		for k, ev := range params {
			if _, ok := env.vars[k]; !ok {
				env.vars[k] = ev
			}
		}
		g.addrNames(in.Block(), true, env)
		for i, p := range proto.Params {
			if i < len(c.Args) {
				env.vars["arg_"+p.Name()] = g.argEnvVal(st, c.Args[i], p.Type())
			}
		}
		t := g.trBool(cl.Expr, env, cl)
		g.addObl(st, "A", a+":"+cl.Name, pos, g.clauseProps(cl, g.allProps()), t, cl.Src)
	}
}

// labelExists: does the function contain a call site named name#n (same numbering as callOrdinal)?
func (g *Gen) labelExists(label string) bool {
	i := strings.LastIndex(label, "#")
	if i < 0 {
		return false
	}
	name := label[:i]
	n, err := strconv.Atoi(label[i+1:])
	if err != nil || n < 1 {
		return false
	}
	cnt := 0
	for _, b := range g.fn.Blocks {
		for _, x := range b.Instrs {
			ci, ok := x.(ssa.CallInstruction)
			if !ok {
				continue
			}
			c := ci.Common()
			cn := ""
			if c.IsInvoke() {
				cn = c.Method.Name()
			} else if sc := c.StaticCallee(); sc != nil {
				cn = sc.Name()
				if fw, _, ok := g.eng.forwarder(sc, c.Args); ok && g.eng.isForwarder(sc) {
					cn = fw.Name()
				}
			} else if _, isB := c.Value.(*ssa.Builtin); !isB {
				cn = dynName(c.Value)
			}
			if cn == name {
				cnt++
			}
		}
	}
	return n <= cnt
}

// metaDeps: the meta clauses in the contracts of fn and of every repository function reachable from it by
// static calls (a verified postcondition of fn may rest on them).
func (e *Engine) metaDeps(fn *ssa.Function, seen map[*ssa.Function]bool) []string {
	if fn == nil || seen[fn] {
		return nil
	}
	seen[fn] = true
	var out []string
	for _, con := range e.contracts[fn.String()] {
		for _, cl := range con.Ensures {
			if cl.Meta != "" {
				out = append(out, "meta clause (assumed, not proved) "+shortFuncName(fn.String())+"/"+cl.Name+": "+cl.Src)
			}
		}
	}
	if !e.isTarget(fn) {
		return out
	}
	for _, b := range fn.Blocks {
		for _, in := range b.Instrs {
			if ci, ok := in.(ssa.CallInstruction); ok {
				if sc := ci.Common().StaticCallee(); sc != nil && e.isTarget(sc) {
					out = append(out, e.metaDeps(sc, seen)...)
				}
			}
		}
	}
	return out
}
