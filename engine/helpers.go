package main

import (
	"os"
	"fmt"
	"go/types"
	"sort"
	"strings"

	"golang.org/x/tools/go/ssa"
)

// ---------- spec sorts and Go type resolution ----------

func (e *Engine) specSort(t string) string {
	t = strings.TrimSpace(t)
	switch t {
	case "int", "byte", "ref", "rune", "int64":
		return "Int"
	case "bool":
		return "Bool"
	case "string":
		return "Str"
	case "error", "any":
		return "Iface"
	case "slice":
		return "Slice"
	case "Bytes", "Str", "Int", "Bool", "Iface", "Slice", "F64":
		return t
	}
	if strings.HasPrefix(t, "array[") {
		// array[K]V
		depth := 0
		for i, c := range t {
			if c == '[' {
				depth++
			}
			if c == ']' {
				depth--
				if depth == 0 {
					return "(Array " + e.specSort(t[6:i]) + " " + e.specSort(t[i+1:]) + ")"
				}
			}
		}
	}
	if strings.HasPrefix(t, "set[") && strings.HasSuffix(t, "]") {
		return "(Array " + e.specSort(t[4:len(t)-1]) + " Bool)"
	}
	if strings.HasPrefix(t, "(") {
		return t
	}
	for _, s := range e.specs.Sorts {
		if s == t {
			return t
		}
	}
	if strings.HasPrefix(t, "*") || strings.HasPrefix(t, "map[") {
		return "Int"
	}
	if strings.HasPrefix(t, "[]") {
		return "Slice"
	}
	return t
}

func (e *Engine) specVType(t string) VType {
	switch strings.TrimSpace(t) {
	case "int":
		return goInt
	case "bool":
		return goBool
	case "string":
		return goString
	case "byte":
		return VType{Go: types.Typ[types.Uint8]}
	case "error":
		return VType{Go: types.Universe.Lookup("error").Type()}
	}
	return VType{Sort: e.specSort(t)}
}

func (e *Engine) typesPkg(path string) *types.Package {
	if p, ok := e.pkgs[path]; ok {
		return p.Pkg
	}
	for _, p := range e.prog.AllPackages() {
		if p.Pkg.Path() == path {
			return p.Pkg
		}
	}
	return nil
}

// resolveType resolves a type written in a contract: Go types relative to pkg, or spec sorts.
func (e *Engine) resolveType(s string, pkg *types.Package) (VType, error) {
	s = strings.TrimSpace(s)
	switch {
	case strings.HasPrefix(s, "*"):
		inner, err := e.resolveType(s[1:], pkg)
		if err != nil {
			return VType{}, err
		}
		if inner.Go == nil {
			return VType{}, fmt.Errorf("pointer to spec sort %s", s)
		}
		return VType{Go: types.NewPointer(inner.Go)}, nil
	case strings.HasPrefix(s, "[]"):
		inner, err := e.resolveType(s[2:], pkg)
		if err != nil {
			return VType{}, err
		}
		if inner.Go == nil {
			return VType{}, fmt.Errorf("slice of spec sort %s", s)
		}
		return VType{Go: types.NewSlice(inner.Go)}, nil
	case strings.HasPrefix(s, "map["):
		depth := 0
		for i, c := range s {
			if c == '[' {
				depth++
			}
			if c == ']' {
				depth--
				if depth == 0 {
					k, err := e.resolveType(s[4:i], pkg)
					if err != nil {
						return VType{}, err
					}
					v, err := e.resolveType(s[i+1:], pkg)
					if err != nil {
						return VType{}, err
					}
					return VType{Go: types.NewMap(k.Go, v.Go)}, nil
				}
			}
		}
	}
	switch s {
	case "any":
		return VType{Go: types.NewInterfaceType(nil, nil)}, nil
	case "ref":
		return VType{Sort: "Int"}, nil
	}
	if obj := types.Universe.Lookup(s); obj != nil {
		if tn, ok := obj.(*types.TypeName); ok {
			return VType{Go: tn.Type()}, nil
		}
	}
	for _, so := range e.specs.Sorts {
		if so == s {
			return VType{Sort: s}, nil
		}
	}
	switch s {
	case "Bytes", "Str", "Int", "Bool", "Iface", "Slice":
		return VType{Sort: s}, nil
	}
	if strings.HasPrefix(s, "array[") || strings.HasPrefix(s, "set[") || strings.HasPrefix(s, "(") {
		return VType{Sort: e.specSort(s)}, nil
	}
	if i := strings.Index(s, "."); i >= 0 {
		pn, tn := s[:i], s[i+1:]
		if p, ok := pkgAliases[pn]; ok {
			if tp := e.typesPkg(p); tp != nil {
				if obj, ok := tp.Scope().Lookup(tn).(*types.TypeName); ok {
					return VType{Go: obj.Type()}, nil
				}
			}
		}
		if pkg != nil {
			for _, imp := range pkg.Imports() {
				if imp.Name() == pn {
					if obj, ok := imp.Scope().Lookup(tn).(*types.TypeName); ok {
						return VType{Go: obj.Type()}, nil
					}
				}
			}
		}
		for _, p := range e.prog.AllPackages() {
			if p.Pkg.Name() == pn || p.Pkg.Path() == pn {
				if obj, ok := p.Pkg.Scope().Lookup(tn).(*types.TypeName); ok {
					return VType{Go: obj.Type()}, nil
				}
			}
		}
		return VType{}, fmt.Errorf("unknown type %s", s)
	}
	if pkg != nil {
		if obj, ok := pkg.Scope().Lookup(s).(*types.TypeName); ok {
			return VType{Go: obj.Type()}, nil
		}
	}
	return VType{}, fmt.Errorf("unknown type %s", s)
}

// ---------- program facts ----------

func (e *Engine) localInterface(t types.Type) bool {
	n, ok := t.(*types.Named)
	if !ok {
		return false
	}
	if n.Obj().Pkg() == nil {
		return false
	}
	return strings.HasPrefix(n.Obj().Pkg().Path(), rootPath)
}

func (e *Engine) implementers(it *types.Interface, m *types.Func) []*ssa.Function {
	var out []*ssa.Function
	for _, f := range e.allFuncs {
		if f.Signature.Recv() == nil || f.Name() != m.Name() || f.Blocks == nil && e.contracts[f.String()] == nil {
			continue
		}
		if f.Synthetic != "" {
			continue
		}
		rt := f.Signature.Recv().Type()
		if types.Implements(rt, it) {
			out = append(out, f)
		}
	}
	sort.Slice(out, func(i, j int) bool { return out[i].String() < out[j].String() })
	return out
}

// addressTaken: functions of the target packages with the given signature that are used as values.
func (e *Engine) addressTaken(sig *types.Signature) []*ssa.Function {
	if e.addrTaken == nil {
		e.addrTaken = map[*ssa.Function]bool{}
		for _, f := range e.allFuncs {
			if f.Blocks == nil || f.Pkg == nil || !strings.HasPrefix(f.Pkg.Pkg.Path(), rootPath) {
				continue
			}
			for _, b := range f.Blocks {
				for _, in := range b.Instrs {
					var ops []*ssa.Value
					ops = in.Operands(ops)
					for i, op := range ops {
						if op == nil || *op == nil {
							continue
						}
						if fn, ok := (*op).(*ssa.Function); ok {
							if c, isCall := in.(ssa.CallInstruction); isCall && i == 0 && c.Common().Value == fn {
								continue
							}
							e.addrTaken[fn] = true
						}
					}
				}
			}
		}
	}
	var out []*ssa.Function
	for f := range e.addrTaken {
		if types.Identical(f.Signature, sig) {
			out = append(out, f)
		}
	}
	sort.Slice(out, func(i, j int) bool { return out[i].String() < out[j].String() })
	return out
}

func (e *Engine) errorAttrs() []string { return e.specs.ErrAttrs }

// ---------- write sets ----------

func (e *Engine) regMaker(key string, mk func(g *Gen) *Region) {
	if e.regionMakers == nil {
		e.regionMakers = map[string]func(g *Gen) *Region{}
	}
	if _, ok := e.regionMakers[key]; !ok {
		e.regionMakers[key] = mk
	}
}

func freshSource(v ssa.Value) bool {
	switch v := v.(type) {
	case *ssa.Alloc, *ssa.MakeSlice, *ssa.MakeMap:
		return true
	case *ssa.Slice:
		return freshSource(v.X)
	}
	return false
}

func addWS(ws map[string]bool, k string, wholesale bool) {
	if wholesale || !ws[k] {
		if wholesale {
			ws[k] = true
		} else if _, ok := ws[k]; !ok {
			ws[k] = false
		}
	}
}

// instrWrites adds the regions instruction `in` may write to ws (true = possibly at pre-existing objects).
func (e *Engine) instrWrites(fn *ssa.Function, in ssa.Instruction, ws map[string]bool, visiting map[*ssa.Function]bool) {
	tmp := e.scratchGen(fn)
	addElem := func(t types.Type, fresh bool) {
		r := tmp.elemRegion(t)
		e.regMaker(r.Key, func(g *Gen) *Region { return g.elemRegion(t) })
		addWS(ws, r.Key, !fresh)
	}
	addMap := func(mt *types.Map, fresh bool) {
		d, v, l := tmp.mapRegions(mt)
		for _, r := range []*Region{d, v, l} {
			rr := r
			e.regMaker(rr.Key, func(g *Gen) *Region {
				a, b, c := g.mapRegions(mt)
				switch rr.Kind {
				case "mapdom":
					return a
				case "mapval":
					return b
				}
				return c
			})
			addWS(ws, rr.Key, !fresh)
		}
	}
	addAlloc := func() { addWS(ws, "alloc", true) }
	switch in := in.(type) {
	case *ssa.Alloc, *ssa.MakeMap:
		addAlloc()
	case *ssa.MakeSlice:
		addAlloc()
	case *ssa.Convert:
		if isString(in.X.Type()) && isByteSlice(in.Type()) {
			addAlloc()
			addElem(types.Typ[types.Uint8], true)
		}
	case *ssa.Store:
		switch a := in.Addr.(type) {
		case *ssa.FieldAddr:
			pt := deref(a.X.Type())
			if s, ok := pt.Underlying().(*types.Struct); ok {
				if isStruct(s.Field(a.Field).Type()) {
					return
				}
				if _, esc := e.escapingField(pt, a.Field); esc {
					ft := s.Field(a.Field).Type()
					r := tmp.cellRegion(ft)
					e.regMaker(r.Key, func(g *Gen) *Region { return g.cellRegion(ft) })
					addWS(ws, r.Key, !freshSource(a.X))
					return
				}
				r := tmp.fieldRegion(pt, a.Field)
				idx := a.Field
				e.regMaker(r.Key, func(g *Gen) *Region { return g.fieldRegion(pt, idx) })
				addWS(ws, r.Key, !freshSource(a.X))
			}
		case *ssa.IndexAddr:
			switch t := a.X.Type().Underlying().(type) {
			case *types.Slice:
				addElem(t.Elem(), freshSource(a.X))
			case *types.Pointer:
				if at, ok := t.Elem().Underlying().(*types.Array); ok {
					addElem(at.Elem(), freshSource(a.X))
				}
			}
		case *ssa.Global:
			r := tmp.globalRegion(a)
			e.regMaker(r.Key, func(g *Gen) *Region { return g.globalRegion(a) })
			addWS(ws, r.Key, true)
		default:
			pt := deref(in.Addr.Type())
			if isStruct(pt) {
				s := pt.Underlying().(*types.Struct)
				for i := 0; i < s.NumFields(); i++ {
					if _, esc := e.escapingField(pt, i); esc {
						ft := s.Field(i).Type()
						r := tmp.cellRegion(ft)
						e.regMaker(r.Key, func(g *Gen) *Region { return g.cellRegion(ft) })
						addWS(ws, r.Key, !freshSource(in.Addr))
						continue
					}
					r := tmp.fieldRegion(pt, i)
					idx := i
					e.regMaker(r.Key, func(g *Gen) *Region { return g.fieldRegion(pt, idx) })
					addWS(ws, r.Key, !freshSource(in.Addr))
				}
				return
			}
			if _, ok := pt.Underlying().(*types.Array); ok {
				return
			}
			r := tmp.cellRegion(pt)
			e.regMaker(r.Key, func(g *Gen) *Region { return g.cellRegion(pt) })
			addWS(ws, r.Key, !freshSource(in.Addr))
		}
	case *ssa.MapUpdate:
		addMap(in.Map.Type().Underlying().(*types.Map), freshSource(in.Map))
	case *ssa.Range:
		if mt, ok := in.X.Type().Underlying().(*types.Map); ok {
			ks := sortOf(mt.Key())
			name := in.Name()
			key := "IT." + name
			e.regMaker(key, func(g *Gen) *Region {
				return g.region(key, func() *Region {
					return &Region{Sym: "IT_" + name, Sort: "(Array " + ks + " Bool)", Kind: "iter", ValSort: "Bool", KeySort: ks}
				})
			})
		}
	case *ssa.Next:
		if r, ok := in.Iter.(*ssa.Range); ok {
			if _, ism := r.X.Type().Underlying().(*types.Map); ism {
				addWS(ws, "IT."+r.Name(), true)
			}
		}
	case ssa.CallInstruction:
		c := in.Common()
		if b, ok := c.Value.(*ssa.Builtin); ok {
			switch b.Name() {
			case "append":
				addAlloc()
				addElem(c.Args[0].Type().Underlying().(*types.Slice).Elem(), false)
			case "copy":
				addElem(c.Args[0].Type().Underlying().(*types.Slice).Elem(), freshSource(c.Args[0]))
			case "delete":
				addMap(c.Args[0].Type().Underlying().(*types.Map), freshSource(c.Args[0]))
			}
			return
		}
		// the address of a (non-escaping) struct field handed to a callee: the callee may write the field through it.
		// (Fields whose address goes only to external or trusted callees are kept in their field region, so the
		// callee's `modifies *v` - a cell region in its own summary - has to be mapped back to the field here.)
		for _, a := range c.Args {
			if mi, ok := a.(*ssa.MakeInterface); ok {
				a = mi.X // the address boxed into an interface{} parameter (json.Unmarshal(data, &x.f))
			}
			if fa, ok := a.(*ssa.FieldAddr); ok {
				pt := deref(fa.X.Type())
				if st, ok := pt.Underlying().(*types.Struct); ok && !isStruct(st.Field(fa.Field).Type()) {
					if _, esc := e.escapingField(pt, fa.Field); !esc {
						r := tmp.fieldRegion(pt, fa.Field)
						idx := fa.Field
						e.regMaker(r.Key, func(g *Gen) *Region { return g.fieldRegion(pt, idx) })
						addWS(ws, r.Key, !freshSource(fa.X))
					}
				}
			}
		}
		var callees []*ssa.Function
		if c.IsInvoke() {
			if e.localInterface(c.Value.Type()) {
				callees = e.implementers(c.Value.Type().Underlying().(*types.Interface), c.Method)
			} else {
				return // external interface method: must be declared pure (checked at VC generation)
			}
		} else if sc := c.StaticCallee(); sc != nil {
			callees = []*ssa.Function{sc}
		} else {
			callees = e.addressTaken(c.Signature())
		}
		for _, callee := range callees {
			for k, w := range e.summaryWrites(callee, visiting) {
				// iterator regions are private to the callee
				if strings.HasPrefix(k, "IT.") {
					continue
				}
				addWS(ws, k, w)
			}
		}
	}
}

// summaryWrites: what a call of fn may write as seen by a caller.
func (e *Engine) summaryWrites(fn *ssa.Function, visiting map[*ssa.Function]bool) map[string]bool {
	out := map[string]bool{}
	var con *Contract
	for _, c := range e.contracts[fn.String()] {
		if c.HasMod {
			con = c
		}
	}
	if con != nil {
		// union over all variants with a modifies clause
		for _, c := range e.contracts[fn.String()] {
			if !c.HasMod {
				continue
			}
			tmp := e.scratchGen(fn)
			env := tmp.baseEnv(Heap{}, Heap{})
			for _, p := range fn.Params {
				env.vars[p.Name()] = EnvVal{term: "0", ty: VType{Go: p.Type()}}
			}
			// parameters of external functions
			sig := fn.Signature
			if len(fn.Params) == 0 {
				if sig.Recv() != nil {
					env.vars[sig.Recv().Name()] = EnvVal{term: "0", ty: VType{Go: sig.Recv().Type()}}
				}
				for i := 0; i < sig.Params().Len(); i++ {
					env.vars[sig.Params().At(i).Name()] = EnvVal{term: "0", ty: VType{Go: sig.Params().At(i).Type()}}
				}
			}
			if fn.Pkg != nil {
				env.pkg = fn.Pkg.Pkg
			}
			for _, item := range c.Modifies {
				func() {
					defer func() { recover() }()
					keys, _, err := tmp.modItem(item, env)
					if err == nil {
						for _, k := range keys {
							out[k] = true
							if _, ok := e.regionMakers[k]; !ok {
								// make the region reproducible in other generators
								r := tmp.regions[k]
								rr := *r
								e.regMaker(k, func(g *Gen) *Region {
									return g.region(k, func() *Region { c := rr; c.versions = 0; return &c })
								})
							}
						}
					}
				}()
			}
			if !c.Pure {
				out["alloc"] = true
			}
		}
		if e.isTarget(fn) {
			for k := range e.writeSets[fn] {
				if _, ok := out[k]; !ok {
					out[k] = false
				}
			}
		}
		return out
	}
	if !e.isTarget(fn) {
		if len(e.contracts[fn.String()]) > 0 {
			out["alloc"] = true
		}
		return out // external without contract: rejected at VC generation
	}
	for k, w := range e.writeSets[fn] {
		out[k] = w
	}
	return out
}

func (e *Engine) isTarget(fn *ssa.Function) bool {
	return fn != nil && fn.Pkg != nil && fn.Blocks != nil && strings.HasPrefix(fn.Pkg.Pkg.Path(), rootPath)
}

func (e *Engine) writeSet(fn *ssa.Function) WriteSet {
	e.computeWriteSets()
	return e.writeSets[fn]
}

// computeWriteSets: global fixpoint of region-level write sets over all target functions.
func (e *Engine) computeWriteSets() {
	if e.wsDone {
		return
	}
	e.wsDone = true
	var fns []*ssa.Function
	for _, f := range e.allFuncs {
		if e.isTarget(f) {
			fns = append(fns, f)
			e.writeSets[f] = WriteSet{}
		}
	}
	sort.Slice(fns, func(i, j int) bool { return fns[i].String() < fns[j].String() })
	for round := 0; round < 50; round++ {
		changed := false
		for _, f := range fns {
			ws := map[string]bool{}
			for _, b := range f.Blocks {
				for _, in := range b.Instrs {
					e.instrWrites(f, in, ws, nil)
				}
			}
			old := e.writeSets[f]
			if len(ws) != len(old) {
				changed = true
			} else {
				for k, v := range ws {
					if ov, ok := old[k]; !ok || ov != v {
						changed = true
					}
				}
			}
			e.writeSets[f] = ws
		}
		if !changed {
			break
		}
	}
}

func (e *Engine) scratchGen(fn *ssa.Function) *Gen {
	if e.scratch == nil {
		e.scratch = map[*ssa.Function]*Gen{}
	}
	if g, ok := e.scratch[fn]; ok {
		return g
	}
	g := NewGen(e, fn, nil, nil)
	g.entryHeap = Heap{}
	e.scratch[fn] = g
	return g
}

// ---- fields whose address escapes (pointer into a struct) ----
//
// A field of non-struct type whose address is used other than for a direct load or store (returned,
// passed as an argument, converted to an interface ...) is stored in the cell region of its type at the
// address paddr(object, k): direct accesses and accesses through the escaped pointer then agree.
// paddr is injective, negative (distinct from every allocated reference and from nil), and such a cell
// counts as allocated exactly when its object is (own).

func fieldKey(t types.Type, idx int) string { return typeKey(t) + "#" + fmt.Sprint(idx) }

func (e *Engine) escapingField(t types.Type, idx int) (int, bool) {
	if e.escFields == nil {
		e.escFields = map[string]int{}
		e.escCells = map[string]bool{}
		e.escOwners = map[string][][2]int{}
		escCellOf := map[string]string{}
		escTagOf := map[string]int{}
		var keys []string
		seen := map[string]bool{}
		for _, f := range e.allFuncs {
			if f.Blocks == nil || !e.isTarget(f) {
				continue
			}
			for _, b := range f.Blocks {
				for _, in := range b.Instrs {
					fa, ok := in.(*ssa.FieldAddr)
					if !ok {
						continue
					}
					st := deref(fa.X.Type())
					s, ok := st.Underlying().(*types.Struct)
					if !ok || isStruct(s.Field(fa.Field).Type()) {
						continue
					}
					esc := false
					if refs := fa.Referrers(); refs != nil {
						for _, r := range *refs {
							switch x := r.(type) {
							case *ssa.UnOp:
							case *ssa.Store:
								if x.Addr != ssa.Value(fa) {
									esc = true
								}
							case *ssa.DebugRef:
							case *ssa.Call:
								// handed to a function outside the repository: its contract speaks about the
								// location itself (argEnvVal), the pointer does not outlive the call
								if c := x.Call.StaticCallee(); c == nil || !e.locCallee(c) {
									esc = true
								}
							case *ssa.MakeInterface:
								if mr := x.Referrers(); mr != nil {
									for _, m := range *mr {
										if c, ok := m.(*ssa.Call); ok {
											if sc := c.Call.StaticCallee(); sc != nil && e.locCallee(sc) {
												continue
											}
										}
										if _, ok := m.(*ssa.DebugRef); ok {
											continue
										}
										esc = true
									}
								}
							default:
								esc = true
							}
						}
					}
					if esc {
						ck := "C." + mangle(typeKey(s.Field(fa.Field).Type().Underlying()))
						e.escCells[ck] = true
						k := fieldKey(st, fa.Field)
						escCellOf[k] = ck
						escTagOf[k] = e.typeTag(st)
						if !seen[k] {
							seen[k] = true
							keys = append(keys, k)
						}
					}
				}
			}
		}
		sort.Strings(keys)
		for i, k := range keys {
			e.escOwners[escCellOf[k]] = append(e.escOwners[escCellOf[k]], [2]int{i + 1, escTagOf[k]})
			e.escFields[k] = i + 1
			if os.Getenv("GOVC_DEBUG_ESC") != "" {
				fmt.Fprintln(os.Stderr, "escaping field:", k)
			}
		}
	}
	k, ok := e.escFields[fieldKey(t, idx)]
	return k, ok
}

func (e *Engine) hasEscaping() bool {
	e.escapingField(types.Typ[types.Int], 0)
	return len(e.escFields) > 0
}

// locCallee: a callee whose contract is stated over the argument's location (outside the repository,
// a forwarder to such a function, or specified by a trusted contract) -- the pointer is not retained.
func (e *Engine) locCallee(c *ssa.Function) bool {
	if !e.isTarget(c) || e.isForwarder(c) {
		return true
	}
	cs := e.contracts[c.String()]
	if len(cs) == 0 {
		return false
	}
	for _, con := range cs {
		if !con.Trusted {
			return false
		}
	}
	return true
}
