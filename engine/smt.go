package main

import (
	"bytes"
	"context"
	"fmt"
	"go/types"
	"os"
	"os/exec"
	"path/filepath"
	"regexp"
	"sort"
	"strings"
	"time"
)

// ---------- sorts ----------

var mangleRe = regexp.MustCompile(`[^A-Za-z0-9]+`)

func shortQual(p *types.Package) string { return p.Name() }

var aliasRe = regexp.MustCompile(`\b(byte|rune|any)\b`)

// typeKey: canonical text of a type (predeclared aliases resolved, so []byte and []uint8 share a region).
func typeKey(t types.Type) string {
	s := types.TypeString(t, shortQual)
	return aliasRe.ReplaceAllStringFunc(s, func(m string) string {
		switch m {
		case "byte":
			return "uint8"
		case "rune":
			return "int32"
		case "any":
			return "interface{}"
		}
		return m
	})
}

func mangle(s string) string {
	s = strings.ReplaceAll(s, "*", "P")
	s = strings.ReplaceAll(s, "[]", "S")
	s = mangleRe.ReplaceAllString(s, "_")
	return strings.Trim(s, "_")
}

// sortOf maps a Go type to its SMT sort.
func sortOf(t types.Type) string {
	switch u := t.Underlying().(type) {
	case *types.Basic:
		switch {
		case u.Info()&types.IsBoolean != 0:
			return "Bool"
		case u.Info()&types.IsInteger != 0:
			return "Int"
		case u.Info()&types.IsString != 0:
			return "Str"
		case u.Info()&types.IsFloat != 0:
			return "F64"
		case u.Kind() == types.UnsafePointer:
			return "Int"
		case u.Kind() == types.UntypedNil:
			return "Int"
		}
		return "Int"
	case *types.Pointer, *types.Map, *types.Chan, *types.Signature:
		return "Int"
	case *types.Slice:
		return "Slice"
	case *types.Interface:
		return "Iface"
	case *types.Struct:
		return "Opaque"
	case *types.Array:
		return "Opaque"
	case *types.Tuple:
		return "Opaque"
	}
	return "Opaque"
}

func zeroOf(t types.Type) string {
	switch sortOf(t) {
	case "Bool":
		return "false"
	case "Int":
		return "0"
	case "Str":
		return "str_empty"
	case "Slice":
		return "nil_slice"
	case "Iface":
		return "nil_iface"
	case "F64":
		return "f64_zero"
	}
	return "opaque_zero"
}

// intRange returns inclusive bounds for an integer type (as SMT literals), ok=false if not integer.
func intRange(t types.Type) (lo, hi string, ok bool) {
	b, isb := t.Underlying().(*types.Basic)
	if !isb || b.Info()&types.IsInteger == 0 {
		return "", "", false
	}
	switch b.Kind() {
	case types.Int8:
		return "(- 128)", "127", true
	case types.Int16:
		return "(- 32768)", "32767", true
	case types.Int32:
		return "(- 2147483648)", "2147483647", true
	case types.Int, types.Int64, types.UntypedInt, types.UntypedRune:
		return "(- 9223372036854775808)", "9223372036854775807", true
	case types.Uint8:
		return "0", "255", true
	case types.Uint16:
		return "0", "65535", true
	case types.Uint32:
		return "0", "4294967295", true
	case types.Uint, types.Uint64, types.Uintptr:
		return "0", "18446744073709551615", true
	}
	return "", "", false
}

func isSigned(t types.Type) bool {
	b, ok := t.Underlying().(*types.Basic)
	return ok && b.Info()&types.IsInteger != 0 && b.Info()&types.IsUnsigned == 0
}

func modulusOf(t types.Type) string {
	b, ok := t.Underlying().(*types.Basic)
	if !ok {
		return ""
	}
	switch b.Kind() {
	case types.Int8, types.Uint8:
		return "256"
	case types.Int16, types.Uint16:
		return "65536"
	case types.Int32, types.Uint32:
		return "4294967296"
	default:
		return "18446744073709551616"
	}
}

const smtPrelude = `(set-option :produce-models true)
(set-logic ALL)
(declare-sort Str 0)
(declare-sort Iface 0)
(declare-sort F64 0)
(declare-sort Opaque 0)
(declare-sort Bytes 0)
(declare-datatypes ((Slice 0)) (((mk-slice (s-arr Int) (s-off Int) (s-len Int) (s-cap Int)))))
(declare-const str_empty Str)
(declare-const nil_iface Iface)
(declare-const f64_zero F64)
(declare-const opaque_zero Opaque)
(define-fun nil_slice () Slice (mk-slice 0 0 0 0))
(declare-fun at (Slice Int) Int)
(assert (forall ((s Slice) (i Int)) (! (= (at s i) (+ (s-off s) i)) :pattern ((at s i)))))
(declare-fun rtype (Int) Int)
@@PADDR@@
(declare-fun itrig (Int) Bool)
(declare-fun itrig2 (Int) Bool)
(assert (forall ((i Int)) (! (and (itrig i) (itrig2 (- i 1)) (itrig2 (+ i 1))) :pattern ((itrig i)))))
(assert (forall ((i Int)) (! (itrig2 i) :pattern ((itrig2 i)))))
(declare-fun strlen (Str) Int)
(declare-fun strat (Str Int) Int)
(declare-fun itype (Iface) Int)
(declare-fun bytesOf ((Array Int Int) Int Int) Bytes)
(declare-fun strbytes (Str) Bytes)
(declare-fun blen (Bytes) Int)
(declare-fun bat (Bytes Int) Int)
(assert (= (strlen str_empty) 0))
(assert (forall ((s Str)) (! (and (>= (strlen s) 0) (<= (strlen s) 72057594037927936)) :pattern ((strlen s)))))
(assert (forall ((s Str)) (! (=> (= (strlen s) 0) (= s str_empty)) :pattern ((strlen s)))))
(assert (forall ((s Str) (i Int)) (! (and (>= (strat s i) 0) (<= (strat s i) 255)) :pattern ((strat s i)))))
(assert (= (itype nil_iface) 0))
(assert (forall ((x Iface)) (! (and (>= (itype x) 0) (=> (= (itype x) 0) (= x nil_iface))) :pattern ((itype x)))))
(assert (forall ((a (Array Int Int)) (o Int) (n Int)) (! (= (blen (bytesOf a o n)) n) :pattern ((bytesOf a o n)))))
(assert (forall ((a (Array Int Int)) (o Int) (n Int) (i Int)) (! (=> (and (<= 0 i) (< i n)) (= (bat (bytesOf a o n) i) (select a (+ o i)))) :pattern ((bat (bytesOf a o n) i)))))
(assert (forall ((s Str)) (! (= (blen (strbytes s)) (strlen s)) :pattern ((strbytes s)))))
(assert (forall ((s Str) (i Int)) (! (= (bat (strbytes s) i) (strat s i)) :pattern ((bat (strbytes s) i)))))
`

// ---------- solver runner ----------

type SolveResult struct {
	Status  string // unsat sat unknown timeout error
	Solver  string
	Time    float64
	Output  string
	Model   string
	Outputs map[string]string
}

type solverSpec struct {
	name string
	args func(file string, timeoutS int) []string
}

var solvers = []solverSpec{
	{"z3-new", func(f string, t int) []string { return []string{"z3-new", fmt.Sprintf("-T:%d", t), f} }},
	{"cvc5", func(f string, t int) []string {
		return []string{"cvc5", "--incremental", fmt.Sprintf("--tlimit=%d", t*1000), f}
	}},
	{"z3", func(f string, t int) []string { return []string{"z3", fmt.Sprintf("-T:%d", t), f} }},
}

func runSolver(ctx context.Context, sp solverSpec, file string, timeoutS int) (string, string, float64) {
	ctx, cancel := context.WithTimeout(ctx, time.Duration(timeoutS+3)*time.Second)
	defer cancel()
	args := sp.args(file, timeoutS)
	cmd := exec.CommandContext(ctx, args[0], args[1:]...)
	var out bytes.Buffer
	cmd.Stdout = &out
	cmd.Stderr = &out
	start := time.Now()
	_ = cmd.Run()
	el := time.Since(start).Seconds()
	o := out.String()
	first := strings.TrimSpace(strings.SplitN(o, "\n", 2)[0])
	switch first {
	case "unsat", "sat", "unknown":
		return first, o, el
	case "timeout":
		return "timeout", o, el
	}
	if ctx.Err() != nil || strings.Contains(o, "timeout") || strings.Contains(o, "interrupted") {
		return "timeout", o, el
	}
	return "error", o, el
}

// solve races the three back ends on one query; the first `unsat` (or a `sat` from z3-new) wins and
// the others are killed. All undecided => the most informative answer (sat > unknown > timeout > error).
func solve(file string, timeoutS int) SolveResult {
	res := SolveResult{Outputs: map[string]string{}}
	type r struct {
		st, out string
		el      float64
		name    string
	}
	ctx, cancel := context.WithCancel(context.Background())
	defer cancel()
	ch := make(chan r, len(solvers))
	for _, sp := range solvers {
		go func(sp solverSpec) {
			st, out, el := runSolver(ctx, sp, file, timeoutS)
			ch <- r{st, out, el, sp.name}
		}(sp)
	}
	rank := map[string]int{"unsat": 5, "sat": 4, "unknown": 3, "timeout": 2, "error": 1, "": 0}
	var best r
	start := time.Now()
	for i := 0; i < len(solvers); i++ {
		x := <-ch
		res.Outputs[x.name] = truncate(x.out, 4000)
		if rank[x.st] > rank[best.st] {
			best = x
		}
		if x.st == "unsat" || (x.st == "sat" && x.name == "z3-new") {
			break
		}
	}
	cancel()
	res.Time = time.Since(start).Seconds()
	res.Status, res.Solver, res.Output = best.st, best.name, best.out
	if best.st == "sat" {
		res.Model = best.out
	}
	return res
}

func truncate(s string, n int) string {
	if len(s) > n {
		return s[:n] + "…"
	}
	return s
}

// ---------- symbol scanning for slicing ----------

var symRe = regexp.MustCompile(`[A-Za-z_][A-Za-z0-9_.!@$%^&*<>=/+\-]*|\|[^|]*\|`)

func symbolsOf(s string) []string {
	return symRe.FindAllString(s, -1)
}

func writeQuery(dir, name, body string) (string, error) {
	fn := filepath.Join(dir, name+".smt2")
	if err := os.MkdirAll(filepath.Dir(fn), 0o755); err != nil {
		return "", err
	}
	return fn, os.WriteFile(fn, []byte(body), 0o644)
}

func sortedKeys[V any](m map[string]V) []string {
	var ks []string
	for k := range m {
		ks = append(ks, k)
	}
	sort.Strings(ks)
	return ks
}

const paddrOn = `(declare-fun paddr (Int Int) Int)
(declare-fun pinv1 (Int) Int)
(declare-fun pinv2 (Int) Int)
(assert (forall ((n Int) (k Int)) (! (and (< (paddr n k) 0) (= (pinv1 (paddr n k)) n) (= (pinv2 (paddr n k)) k)) :pattern ((paddr n k)))))
(define-fun own ((r Int)) Int (ite (< r 0) (pinv1 r) r))`

// programs without escaping fields never build a paddr term: own is the identity there
const paddrOff = `(define-fun own ((r Int)) Int r)`
