package main

import (
	"fmt"
	"go/token"
	"go/types"
	"os"
	"path/filepath"
	"sort"
	"strings"

	"golang.org/x/tools/go/packages"
	"golang.org/x/tools/go/ssa"
	"golang.org/x/tools/go/ssa/ssautil"
)

const (
	v5Path   = "github.com/evanphx/json-patch/v5"
	jsonPath = "github.com/evanphx/json-patch/v5/internal/json"
	rootPath = "github.com/evanphx/json-patch"
)

var pkgAliases = map[string]string{
	"v5":      v5Path,
	"ijson":   jsonPath,
	"root":    rootPath,
	"v5cmd":   v5Path + "/cmd/json-patch",
	"rootcmd": rootPath + "/cmd/json-patch",
}

type Engine struct {
	fset      *token.FileSet
	prog      *ssa.Program
	pkgs      map[string]*ssa.Package // by path
	allFuncs  map[string]*ssa.Function
	specs     *Specs
	contracts map[string][]*Contract // canonical function name -> variants
	typeTags  map[string]int
	tagTypes  []types.Type
	funcTags  map[*ssa.Function]int
	tagFuncs  []*ssa.Function
	writeSets map[*ssa.Function]WriteSet
	srcFiles  map[string]bool
	problems  []string
	srcCache  map[string][]string
	loadedDirs []string
	addrTaken map[*ssa.Function]bool
	regionMakers map[string]func(g *Gen) *Region
	scratch   map[*ssa.Function]*Gen
	wsDone    bool
	ghosts    map[string]string
	pureIfaceMethods map[string]bool
	escFields map[string]int
	escCells  map[string]bool
	escOwners map[string][][2]int // cell region -> (field ordinal k, struct type tag) of the fields stored in it
}

// WriteSet: region key -> true if possibly written at non-fresh refs (wholesale), false if only on objects allocated by the callee.
type WriteSet map[string]bool

func shortFuncName(full string) string {
	s := full
	s = strings.ReplaceAll(s, jsonPath, "json")
	s = strings.ReplaceAll(s, v5Path+"/cmd/json-patch", "v5cmd")
	s = strings.ReplaceAll(s, rootPath+"/cmd/json-patch", "rootcmd")
	s = strings.ReplaceAll(s, v5Path, "v5")
	s = strings.ReplaceAll(s, rootPath, "root")
	return s
}

// LoadEngine loads the Go packages in dir (patterns) with the build tag verif and builds SSA.
func LoadEngine(dir string, patterns []string, specDirs []string) (*Engine, error) {
	fset := token.NewFileSet()
	cfg := &packages.Config{
		Mode:       packages.LoadAllSyntax,
		Dir:        dir,
		Fset:       fset,
		BuildFlags: []string{"-tags=verif"},
		Env:        append(os.Environ(), "GOFLAGS=-mod=mod", "GOPROXY=off", "GOSUMDB=off", "GOTOOLCHAIN=local"),
	}
	pkgs, err := packages.Load(cfg, patterns...)
	if err != nil {
		return nil, err
	}
	var errs []string
	packages.Visit(pkgs, nil, func(p *packages.Package) {
		for _, e := range p.Errors {
			errs = append(errs, e.Error())
		}
	})
	if len(errs) > 0 {
		return nil, fmt.Errorf("package load errors:\n%s", strings.Join(errs, "\n"))
	}
	prog, spkgs := ssautil.AllPackages(pkgs, ssa.GlobalDebug|ssa.SanityCheckFunctions)
	prog.Build()
	e := &Engine{fset: fset, prog: prog, pkgs: map[string]*ssa.Package{}, allFuncs: map[string]*ssa.Function{},
		specs: NewSpecs(), contracts: map[string][]*Contract{}, typeTags: map[string]int{}, funcTags: map[*ssa.Function]int{},
		writeSets: map[*ssa.Function]WriteSet{}, srcFiles: map[string]bool{}, srcCache: map[string][]string{}}
	for _, p := range spkgs {
		if p != nil {
			e.pkgs[p.Pkg.Path()] = p
		}
	}
	for f := range ssautil.AllFunctions(prog) {
		if f.Synthetic != "" && f.Blocks == nil {
			continue
		}
		name := f.String()
		if prev, dup := e.allFuncs[name]; dup {
			// prefer the one with a body
			if prev.Blocks != nil {
				continue
			}
		}
		e.allFuncs[name] = f
	}
	// spec files
	for _, sd := range specDirs {
		files, _ := filepath.Glob(filepath.Join(sd, "*.spec"))
		sort.Strings(files)
		for _, f := range files {
			if err := e.specs.LoadFile(f, false, ""); err != nil {
				return nil, err
			}
		}
	}
	// repo contract files: verif_contracts.go in each loaded target package dir
	for _, p := range pkgs {
		var dirs = map[string]bool{}
		for _, gf := range p.GoFiles {
			dirs[filepath.Dir(gf)] = true
			if strings.HasPrefix(p.PkgPath, rootPath) {
				e.srcFiles[gf] = true
			}
		}
		for d := range dirs {
			cf := filepath.Join(d, "verif_contracts.go")
			if _, err := os.Stat(cf); err == nil {
				before := len(e.specs.Contracts)
				if err := e.specs.LoadFile(cf, true, p.PkgPath); err != nil {
					return nil, err
				}
				for _, c := range e.specs.Contracts[before:] {
					c.FuncName = qualifyLocal(c.FuncName, p.PkgPath)
				}
			}
		}
	}
	e.ghosts = e.specs.Ghosts
	e.pureIfaceMethods = e.specs.IfacePure
	for _, d := range e.specs.Defines {
		if d.PkgPath != "" {
			d.Pkg = e.typesPkg(d.PkgPath)
		}
	}
	for _, c := range e.specs.Contracts {
		if !c.FromRepo {
			c.FuncName = expandAliases(c.FuncName)
			if c.PkgPath != "" && e.typesPkg(c.PkgPath) == nil {
				continue // a contract scoped to a package that is not part of this program
			}
		}
		e.contracts[c.FuncName] = append(e.contracts[c.FuncName], c)
	}
	e.hasEscaping() // computed once, before any concurrent use
	return e, nil
}

// qualifyLocal turns "(*T).m", "(T).m", "f" into ssa.Function.String() form for package path.
func qualifyLocal(name, pkgPath string) string {
	if strings.HasPrefix(name, "(*") {
		return "(*" + pkgPath + "." + name[2:]
	}
	if strings.HasPrefix(name, "(") {
		return "(" + pkgPath + "." + name[1:]
	}
	return pkgPath + "." + name
}

func expandAliases(name string) string {
	for a, p := range pkgAliases {
		for _, pre := range []string{"(*", "(", ""} {
			if strings.HasPrefix(name, pre+a+".") {
				return pre + p + "." + name[len(pre)+len(a)+1:]
			}
		}
	}
	return name
}

func (e *Engine) contractFor(fn *ssa.Function, variant string) *Contract {
	cs := e.contracts[fn.String()]
	var def *Contract
	for _, c := range cs {
		if c.Variant == variant {
			c.Used = true
			return c
		}
		if c.Variant == "" {
			def = c
		}
	}
	if def != nil {
		def.Used = true
	}
	return def
}

func (e *Engine) typeTag(t types.Type) int {
	k := typeKey(t)
	if id, ok := e.typeTags[k]; ok {
		return id
	}
	id := len(e.typeTags) + 1
	e.typeTags[k] = id
	e.tagTypes = append(e.tagTypes, t)
	return id
}

func (e *Engine) funcTag(f *ssa.Function) int {
	if id, ok := e.funcTags[f]; ok {
		return id
	}
	id := len(e.funcTags) + 1
	e.funcTags[f] = id
	e.tagFuncs = append(e.tagFuncs, f)
	return id
}

func (e *Engine) sourceLine(pos token.Pos) (string, token.Position) {
	p := e.fset.Position(pos)
	if !p.IsValid() {
		return "", p
	}
	lines, ok := e.srcCache[p.Filename]
	if !ok {
		b, err := os.ReadFile(p.Filename)
		if err == nil {
			lines = strings.Split(string(b), "\n")
		}
		e.srcCache[p.Filename] = lines
	}
	if p.Line-1 < len(lines) && p.Line >= 1 {
		return strings.TrimSpace(lines[p.Line-1]), p
	}
	return "", p
}

// targetFuncs returns functions with bodies declared in the given package path, in source order.
func (e *Engine) targetFuncs(pkgPath string, fileFilter func(string) bool) []*ssa.Function {
	var out []*ssa.Function
	for _, f := range e.allFuncs {
		if f.Pkg == nil || f.Pkg.Pkg.Path() != pkgPath || f.Blocks == nil || f.Synthetic != "" {
			continue
		}
		pos := e.fset.Position(f.Pos())
		if fileFilter != nil && !fileFilter(filepath.Base(pos.Filename)) {
			continue
		}
		out = append(out, f)
	}
	sort.Slice(out, func(i, j int) bool {
		pi, pj := e.fset.Position(out[i].Pos()), e.fset.Position(out[j].Pos())
		if pi.Filename != pj.Filename {
			return pi.Filename < pj.Filename
		}
		return pi.Offset < pj.Offset
	})
	return out
}
