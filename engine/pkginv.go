package main

import (
	"fmt"

	"golang.org/x/tools/go/ssa"
)

// Package invariants (`pkginv NAME: EXPR` in a contract file, scoped by `package`).
//
// A package invariant is a closed formula over the heap (typically quantified over all references
// of the package's unexported types). Every function with a body in that package, except those
// marked `noinv`, assumes it on entry and must re-establish it at every return, at every call of
// another participating function, and around every loop. Zero-valued memory must satisfy it.
// An obligation is generated only where the SMT text of the invariant over the current heap
// versions differs from the instance last known to hold on the path (no relevant region changed
// => nothing to prove).

func (e *Engine) participates(fn *ssa.Function) bool {
	if fn == nil || fn.Pkg == nil || !e.isTarget(fn) {
		return false
	}
	for _, c := range e.contracts[fn.String()] {
		if c.NoInv {
			return false
		}
	}
	for _, gi := range e.specs.PkgInvs {
		if gi.PkgPath == fn.Pkg.Pkg.Path() {
			return true
		}
	}
	return false
}

func (g *Gen) pkgInvs(fn *ssa.Function) []*GInv {
	if !g.eng.participates(fn) {
		return nil
	}
	var out []*GInv
	for _, gi := range g.eng.specs.PkgInvs {
		if gi.PkgPath == fn.Pkg.Pkg.Path() {
			out = append(out, gi)
		}
	}
	return out
}

func (g *Gen) invInstance(gi *GInv, fn *ssa.Function, heap Heap) string {
	env := &Env{vars: map[string]EnvVal{}, lets: map[string]CExpr{}, heap: heap, old: g.entryHeap, labels: map[string]*callRecord{}}
	env.pkg = fn.Pkg.Pkg
	// deterministic binder names: the same heap versions must give the same text
	saved, savedQ := g.nq, g.nqid
	g.nq, g.nqid = 900000, 900000
	defer func() { g.nq, g.nqid = saved, savedQ }()
	return g.trBool(gi.Expr, env, &Clause{Kind: "pkginv", Name: gi.Name, File: gi.File, Line: gi.Line})
}

// assumePkgInvs: the invariants of fn's package hold in st's heap (entry of g.fn, or after a call of fn).
func (g *Gen) assumePkgInvs(st *BState, fn *ssa.Function) {
	for _, gi := range g.pkgInvs(fn) {
		t := g.invInstance(gi, fn, st.heap)
		if st.inv[gi.Name] == t {
			continue
		}
		g.assume(st, t)
		st.inv[gi.Name] = t
	}
}

// checkPkgInvs: obligations that the invariants of g.fn's package hold now.
func (g *Gen) checkPkgInvs(st *BState, class, prefix, pos, guard string) {
	g.checkPkgInvsAgainst(st, class, prefix, pos, guard, st.inv)
}

func (g *Gen) checkPkgInvsAgainst(st *BState, class, prefix, pos, guard string, known map[string]string) {
	for _, gi := range g.pkgInvs(g.fn) {
		t := g.invInstance(gi, g.fn, st.heap)
		if known[gi.Name] == t || st.inv[gi.Name] == t {
			continue
		}
		goal := t
		if guard != "true" {
			goal = fmt.Sprintf("(=> %s %s)", guard, t)
		}
		g.addObl(st, class, prefix+gi.Name, pos, g.allProps(), goal, gi.Src)
		g.assume(st, goal)
		if guard == "true" {
			st.inv[gi.Name] = t
		}
	}
}
