package main

import (
	"fmt"
	"regexp"

	"golang.org/x/tools/go/ssa"
)

var allocVerRe = regexp.MustCompile(`alloc@[0-9]+`)

// invSig: the invariant instance with the version of the allocation map abstracted away. Package
// invariants are monotone in the allocation map (checked by the obligation pkginv/L/alloc-monotone),
// and the allocation map only grows, so an instance that held over an earlier allocation map and the
// same versions of every other region still holds.
func invSig(t string) string { return allocVerRe.ReplaceAllString(t, "alloc@*") }

// Package invariants (`pkginv NAME: EXPR` in a contract file, scoped by `package`).
//
// A package invariant is a closed formula over the heap (typically quantified over all references
// of the package's unexported types). Every function with a body in that package, except those
// marked `noinv`, assumes it on entry and must re-establish it at every return, at every call of
// another participating function, and around every loop. Zero-valued memory must satisfy it.
// An obligation is generated only where the SMT text of the invariant over the current heap
// versions differs from the instance last known to hold on the path (no relevant region changed
// => nothing to prove).

func (e *Engine) participates(fn *ssa.Function) bool {
	if fn == nil || fn.Pkg == nil || !e.isTarget(fn) {
		return false
	}
	for _, c := range e.contracts[fn.String()] {
		if c.NoInv {
			return false
		}
	}
	for _, gi := range e.specs.PkgInvs {
		if gi.PkgPath == fn.Pkg.Pkg.Path() {
			return true
		}
	}
	return false
}

func (g *Gen) pkgInvs(fn *ssa.Function) []*GInv {
	if !g.eng.participates(fn) {
		return nil
	}
	var out []*GInv
	for _, gi := range g.eng.specs.PkgInvs {
		if gi.PkgPath == fn.Pkg.Pkg.Path() {
			out = append(out, gi)
		}
	}
	return out
}

func (g *Gen) invInstance(gi *GInv, fn *ssa.Function, heap Heap) string {
	env := &Env{vars: map[string]EnvVal{}, lets: map[string]CExpr{}, heap: heap, old: g.entryHeap, labels: map[string]*callRecord{}}
	env.pkg = fn.Pkg.Pkg
	// deterministic binder names: the same heap versions must give the same text
	saved, savedQ := g.nq, g.nqid
	g.nq, g.nqid = 900000, 900000
	defer func() { g.nq, g.nqid = saved, savedQ }()
	return g.trBool(gi.Expr, env, &Clause{Kind: "pkginv", Name: gi.Name, File: gi.File, Line: gi.Line})
}

// assumePkgInvs: the invariants of fn's package hold in st's heap (entry of g.fn, or after a call of fn).
func (g *Gen) assumePkgInvs(st *BState, fn *ssa.Function) {
	for _, gi := range g.pkgInvs(fn) {
		t := g.invInstance(gi, fn, st.heap)
		// recorded, not added to the path condition: every obligation generated while this instance is
		// the latest one known to hold gets it as a hypothesis (see addObl)
		st.setInv(gi.Name, t)
	}
}

// checkPkgInvs: obligations that the invariants of g.fn's package hold now.
func (g *Gen) checkPkgInvs(st *BState, class, prefix, pos, guard string) {
	g.checkPkgInvsAgainst(st, class, prefix, pos, guard, st.inv)
}

func (g *Gen) checkPkgInvsAgainst(st *BState, class, prefix, pos, guard string, known map[string]string) {
	for _, gi := range g.pkgInvs(g.fn) {
		t := g.invInstance(gi, g.fn, st.heap)
		if known[gi.Name] == t || st.inv[gi.Name] == t {
			continue
		}
		if (known[gi.Name] != "" && invSig(known[gi.Name]) == invSig(t)) || (st.inv[gi.Name] != "" && invSig(st.inv[gi.Name]) == invSig(t)) {
			// only the allocation map moved on: holds by monotonicity; make the current instance available
			st.setInv(gi.Name, t)
			continue
		}
		goal := t
		if guard != "true" {
			goal = fmt.Sprintf("(=> %s %s)", guard, t)
		}
		g.addObl(st, class, prefix+gi.Name, pos, g.allProps(), goal, gi.Src)
		if guard == "true" {
			st.setInv(gi.Name, t)
		} else {
			g.assume(st, goal)
		}
	}
}

// allocMonotoneLemmas: for each package invariant, the obligation that it is monotone in the allocation map.
func allocMonotoneLemmas(e *Engine, pkgPath string, fn *ssa.Function) []*Obligation {
	var out []*Obligation
	for _, gi := range e.specs.PkgInvs {
		if gi.PkgPath != pkgPath {
			continue
		}
		g := NewGen(e, fn, nil, nil)
		g.fname = "pkginv"
		g.entryHeap = Heap{}
		g.prepareAxioms()
		h1 := Heap{}
		a1 := g.heapGet(h1, g.allocRegion())
		t1 := g.invInstance(gi, fn, h1)
		h2 := h1.clone()
		a2 := g.newVersion(g.allocRegion())
		h2["alloc"] = a2
		t2 := g.invInstance(gi, fn, h2)
		st := &BState{heap: h2, pc: "true", inv: map[string]string{}}
		g.assume(st, t1)
		g.assume(st, fmt.Sprintf("(forall ((r Int)) (! (=> (select %s r) (select %s r)) :pattern ((select %s r))))", a1, a2, a2))
		o := g.addObl(st, "L", "alloc-monotone:"+gi.Name, gi.File, g.allProps(), t2, "the invariant still holds when more memory is allocated")
		o.Name = "pkginv/L/alloc-monotone:" + gi.Name
		out = append(out, o)
	}
	return out
}
