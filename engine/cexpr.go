package main

// Contract expression language: lexer, AST and a Pratt parser.
//
// Grammar (lowest to highest precedence):
//   quant   := ("forall"|"exists") binder {"," binder} "::" expr
//   iff     := impl {"<==>" impl}
//   impl    := cond ["==>" impl]                     (right assoc)
//   cond    := or ["?" expr ":" cond]
//   or      := and {"||" and}
//   and     := cmp {"&&" cmp}
//   cmp     := add [("=="|"!="|"<"|"<="|">"|">="|"in") add]
//   add     := mul {("+"|"-"|"++") mul}
//   mul     := unary {("*"|"/"|"%") unary}
//   unary   := ("!"|"-"|"*") unary | postfix
//   postfix := primary {"." ident | "[" expr [":" expr] "]" | "(" args ")"}
//   primary := ident | int | string | char | "(" expr ")"

import (
	"fmt"
	"strconv"
	"strings"
	"unicode"
)

type CExpr interface{}

type (
	CIdent  struct{ Name string }
	CInt    struct{ V string }
	CStr    struct{ V string }
	CUnary  struct {
		Op string
		X  CExpr
	}
	CBinary struct {
		Op   string
		X, Y CExpr
	}
	CCall struct {
		Fn   string
		Args []CExpr
	}
	CField struct {
		X    CExpr
		Name string
	}
	CIndex struct{ X, I CExpr }
	CSlice struct{ X, Lo, Hi CExpr }
	CCond  struct{ C, A, B CExpr }
	CVar   struct{ Name, Type string }
	CQuant struct {
		Forall   bool
		Vars     []CVar
		Body     CExpr
		Triggers [][]CExpr
	}
)

type ctoken struct {
	kind string // id int str op eof
	text string
}

func clex(s string) ([]ctoken, error) {
	var toks []ctoken
	i := 0
	for i < len(s) {
		c := s[i]
		switch {
		case c == ' ' || c == '\t' || c == '\n' || c == '\r':
			i++
		case unicode.IsLetter(rune(c)) || c == '_':
			j := i
			for j < len(s) && (unicode.IsLetter(rune(s[j])) || unicode.IsDigit(rune(s[j])) || s[j] == '_' || (s[j] == '#' && j+1 < len(s) && s[j+1] >= '0' && s[j+1] <= '9')) {
				j++
			}
			toks = append(toks, ctoken{"id", s[i:j]})
			i = j
		case c >= '0' && c <= '9':
			j := i
			if c == '0' && j+1 < len(s) && (s[j+1] == 'x' || s[j+1] == 'X') {
				j += 2
				for j < len(s) && strings.ContainsRune("0123456789abcdefABCDEF", rune(s[j])) {
					j++
				}
				v, err := strconv.ParseInt(s[i+2:j], 16, 64)
				if err != nil {
					return nil, err
				}
				toks = append(toks, ctoken{"int", strconv.FormatInt(v, 10)})
			} else {
				for j < len(s) && s[j] >= '0' && s[j] <= '9' {
					j++
				}
				toks = append(toks, ctoken{"int", s[i:j]})
			}
			i = j
		case c == '"':
			j := i + 1
			for j < len(s) && s[j] != '"' {
				if s[j] == '\\' {
					j++
				}
				j++
			}
			if j >= len(s) {
				return nil, fmt.Errorf("unterminated string in %q", s)
			}
			v, err := strconv.Unquote(s[i : j+1])
			if err != nil {
				return nil, fmt.Errorf("bad string %s: %v", s[i:j+1], err)
			}
			toks = append(toks, ctoken{"str", v})
			i = j + 1
		case c == '\'':
			j := i + 1
			for j < len(s) && s[j] != '\'' {
				if s[j] == '\\' {
					j++
				}
				j++
			}
			if j >= len(s) {
				return nil, fmt.Errorf("unterminated char in %q", s)
			}
			r, _, _, err := strconv.UnquoteChar(s[i+1:j], '\'')
			if err != nil {
				return nil, err
			}
			toks = append(toks, ctoken{"int", strconv.Itoa(int(r))})
			i = j + 1
		default:
			ops := []string{"<==>", "==>", "::", "==", "!=", "<=", ">=", "&&", "||", "++", "<", ">", "+", "-", "*", "/", "%", "!", "&", "(", ")", "[", "]", ".", ",", ":", "?", "{", "}"}
			found := false
			for _, op := range ops {
				if strings.HasPrefix(s[i:], op) {
					toks = append(toks, ctoken{"op", op})
					i += len(op)
					found = true
					break
				}
			}
			if !found {
				return nil, fmt.Errorf("unexpected character %q in %q", c, s)
			}
		}
	}
	toks = append(toks, ctoken{"eof", ""})
	return toks, nil
}

type cparser struct {
	toks []ctoken
	pos  int
	src  string
}

func ParseCExpr(s string) (e CExpr, err error) {
	toks, err := clex(s)
	if err != nil {
		return nil, err
	}
	p := &cparser{toks: toks, src: s}
	defer func() {
		if r := recover(); r != nil {
			if pe, ok := r.(parseErr); ok {
				err = fmt.Errorf("%s in %q", string(pe), s)
				return
			}
			panic(r)
		}
	}()
	e = p.expr()
	if p.peek().kind != "eof" {
		p.fail("trailing input at " + p.peek().text)
	}
	return e, nil
}

type parseErr string

func (p *cparser) fail(m string)    { panic(parseErr(m)) }
func (p *cparser) peek() ctoken     { return p.toks[p.pos] }
func (p *cparser) next() ctoken     { t := p.toks[p.pos]; p.pos++; return t }
func (p *cparser) isOp(s string) bool {
	t := p.peek()
	return t.kind == "op" && t.text == s
}
func (p *cparser) isID(s string) bool {
	t := p.peek()
	return t.kind == "id" && t.text == s
}
func (p *cparser) expect(s string) {
	if !p.isOp(s) {
		p.fail("expected " + s + " got " + p.peek().text)
	}
	p.pos++
}

func (p *cparser) expr() CExpr {
	if p.isID("forall") || p.isID("exists") {
		fa := p.next().text == "forall"
		var vars []CVar
		for {
			t := p.next()
			if t.kind != "id" {
				p.fail("binder name expected")
			}
			ty := p.typeExpr()
			vars = append(vars, CVar{t.text, ty})
			if p.isOp(",") {
				p.pos++
				continue
			}
			break
		}
		var trigs [][]CExpr
		for p.isOp("{") {
			p.pos++
			var set []CExpr
			for !p.isOp("}") {
				set = append(set, p.expr())
				if p.isOp(",") {
					p.pos++
				}
			}
			p.expect("}")
			trigs = append(trigs, set)
		}
		p.expect("::")
		body := p.expr()
		return &CQuant{fa, vars, body, trigs}
	}
	return p.iff()
}

// typeExpr parses a Go-like type and returns its canonical text.
func (p *cparser) typeExpr() string {
	switch {
	case p.isOp("*"):
		p.pos++
		return "*" + p.typeExpr()
	case p.isOp("["):
		p.pos++
		p.expect("]")
		return "[]" + p.typeExpr()
	case p.isID("map"):
		p.pos++
		p.expect("[")
		k := p.typeExpr()
		p.expect("]")
		return "map[" + k + "]" + p.typeExpr()
	}
	t := p.next()
	if t.kind != "id" {
		p.fail("type expected, got " + t.text)
	}
	name := t.text
	if p.isOp(".") {
		p.pos++
		t2 := p.next()
		name += "." + t2.text
	}
	return name
}

func (p *cparser) iff() CExpr {
	x := p.impl()
	for p.isOp("<==>") {
		p.pos++
		y := p.impl()
		x = &CBinary{"<==>", x, y}
	}
	return x
}

func (p *cparser) impl() CExpr {
	x := p.cond()
	if p.isOp("==>") {
		p.pos++
		var y CExpr
		if p.isID("forall") || p.isID("exists") {
			y = p.expr()
		} else {
			y = p.impl()
		}
		return &CBinary{"==>", x, y}
	}
	return x
}

func (p *cparser) cond() CExpr {
	c := p.or()
	if p.isOp("?") {
		p.pos++
		a := p.expr()
		p.expect(":")
		b := p.cond()
		return &CCond{c, a, b}
	}
	return c
}

func (p *cparser) or() CExpr {
	x := p.and()
	for p.isOp("||") {
		p.pos++
		y := p.and()
		x = &CBinary{"||", x, y}
	}
	return x
}

func (p *cparser) and() CExpr {
	x := p.cmp()
	for p.isOp("&&") {
		p.pos++
		var y CExpr
		if p.isID("forall") || p.isID("exists") {
			y = p.expr()
		} else {
			y = p.cmp()
		}
		x = &CBinary{"&&", x, y}
	}
	return x
}

func (p *cparser) cmp() CExpr {
	x := p.add()
	t := p.peek()
	if t.kind == "op" {
		switch t.text {
		case "==", "!=", "<", "<=", ">", ">=":
			p.pos++
			y := p.add()
			return &CBinary{t.text, x, y}
		}
	}
	if t.kind == "id" && t.text == "in" {
		p.pos++
		y := p.add()
		return &CBinary{"in", x, y}
	}
	return x
}

func (p *cparser) add() CExpr {
	x := p.mul()
	for p.isOp("+") || p.isOp("-") || p.isOp("++") {
		op := p.next().text
		y := p.mul()
		x = &CBinary{op, x, y}
	}
	return x
}

func (p *cparser) mul() CExpr {
	x := p.unary()
	for p.isOp("*") || p.isOp("/") || p.isOp("%") {
		op := p.next().text
		y := p.unary()
		x = &CBinary{op, x, y}
	}
	return x
}

func (p *cparser) unary() CExpr {
	if p.isOp("!") || p.isOp("-") || p.isOp("*") || p.isOp("&") {
		op := p.next().text
		x := p.unary()
		return &CUnary{op, x}
	}
	return p.postfix()
}

func (p *cparser) postfix() CExpr {
	x := p.primary()
	for {
		switch {
		case p.isOp("."):
			p.pos++
			t := p.next()
			if t.kind != "id" && t.kind != "int" {
				p.fail("field name expected")
			}
			x = &CField{x, t.text}
		case p.isOp("["):
			p.pos++
			var lo CExpr
			if !p.isOp(":") {
				lo = p.expr()
			}
			if p.isOp(":") {
				p.pos++
				var hi CExpr
				if !p.isOp("]") {
					hi = p.expr()
				}
				p.expect("]")
				x = &CSlice{x, lo, hi}
			} else {
				p.expect("]")
				x = &CIndex{x, lo}
			}
		case p.isOp("("):
			id, ok := x.(*CIdent)
			if !ok {
				p.fail("call of non-identifier")
			}
			p.pos++
			var args []CExpr
			for !p.isOp(")") {
				args = append(args, p.expr())
				if p.isOp(",") {
					p.pos++
				}
			}
			p.expect(")")
			x = &CCall{id.Name, args}
		default:
			return x
		}
	}
}

func (p *cparser) primary() CExpr {
	// a type used as an argument (istype, unbox, slot, typetag ...): map[K]V or []T
	if (p.isID("map") && p.toks[p.pos+1].kind == "op" && p.toks[p.pos+1].text == "[") ||
		(p.isOp("[") && p.toks[p.pos+1].kind == "op" && p.toks[p.pos+1].text == "]") {
		return &CIdent{p.typeExpr()}
	}
	t := p.next()
	switch t.kind {
	case "id":
		return &CIdent{t.text}
	case "int":
		return &CInt{t.text}
	case "str":
		return &CStr{t.text}
	case "op":
		if t.text == "(" {
			e := p.expr()
			p.expect(")")
			return e
		}
	}
	p.fail("unexpected token " + t.text)
	return nil
}

// cexprString renders an expression back to text (for reports).
func cexprString(e CExpr) string {
	switch e := e.(type) {
	case *CIdent:
		return e.Name
	case *CInt:
		return e.V
	case *CStr:
		return strconv.Quote(e.V)
	case *CUnary:
		return e.Op + cexprString(e.X)
	case *CBinary:
		return "(" + cexprString(e.X) + " " + e.Op + " " + cexprString(e.Y) + ")"
	case *CCall:
		var a []string
		for _, x := range e.Args {
			a = append(a, cexprString(x))
		}
		return e.Fn + "(" + strings.Join(a, ", ") + ")"
	case *CField:
		return cexprString(e.X) + "." + e.Name
	case *CIndex:
		return cexprString(e.X) + "[" + cexprString(e.I) + "]"
	case *CSlice:
		lo, hi := "", ""
		if e.Lo != nil {
			lo = cexprString(e.Lo)
		}
		if e.Hi != nil {
			hi = cexprString(e.Hi)
		}
		return cexprString(e.X) + "[" + lo + ":" + hi + "]"
	case *CCond:
		return "(" + cexprString(e.C) + " ? " + cexprString(e.A) + " : " + cexprString(e.B) + ")"
	case *CQuant:
		q := "exists"
		if e.Forall {
			q = "forall"
		}
		var vs []string
		for _, v := range e.Vars {
			vs = append(vs, v.Name+" "+v.Type)
		}
		return "(" + q + " " + strings.Join(vs, ", ") + " :: " + cexprString(e.Body) + ")"
	}
	return "?"
}
