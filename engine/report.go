package main

import (
	"crypto/sha256"
	"encoding/json"
	"fmt"
	"os"
	"path/filepath"
	"sort"
	"strings"

	"golang.org/x/tools/go/ssa"
)

// c04Scope: functions swept for panic freedom (all S/O/T obligations).
func c04Scope(e *Engine, f *ssa.Function) bool {
	path := f.Pkg.Pkg.Path()
	pos := e.fset.Position(f.Pos())
	base := filepath.Base(pos.Filename)
	if f.Name() == "init" || strings.HasPrefix(f.Name(), "init#") {
		return false
	}
	switch path {
	case v5Path, rootPath:
		return base == "patch.go" || base == "merge.go" || base == "errors.go"
	case jsonPath:
		// the scanner, and the helpers of the codec that need no reflection (the reflective decoder/encoder
		// bodies are out of reach and stay assumed)
		if base == "scanner.go" {
			return true
		}
		switch f.Name() {
		case "compact", "Compact", "HTMLEscape", "getu4", "isValidNumber", "newline", "nonSpace", "foldFunc", "asciiEqualFold", "simpleLetterEqualFold", "unquoteBytes", "unquote", "Indent":
			return f.Signature.Recv() == nil
		}
		return false
	}
	return false
}

type replayFile struct {
	Property     string            `json:"property"`
	Obligation   string            `json:"obligation"`
	Class        string            `json:"class"`
	Function     string            `json:"function"`
	Position     string            `json:"position"`
	Clause       string            `json:"clause,omitempty"`
	SMTFile      string            `json:"smt_file,omitempty"`
	SMTSHA256    string            `json:"smt_sha256,omitempty"`
	Status       string            `json:"solver_status"`
	Solver       string            `json:"solver"`
	SolverOutput map[string]string `json:"solver_outputs"`
	Model        map[string]string `json:"model,omitempty"`
	ReplayTest   string            `json:"replay_test,omitempty"`
	ReplayCmd    string            `json:"replay_cmd,omitempty"`
	ReplayResult string            `json:"replay_result"`
	ReplayOutput string            `json:"replay_output,omitempty"`
}

func report(prop, tier string, all []*Obligation, functions []string, trusted, imprecise map[string]bool, files map[string]string, lemmaCount int, wall float64) int {
	known := loadKnown()
	isKnown := func(name string) *KnownFinding {
		for i := range known {
			// a recorded finding is identified by the obligation (and its input); the same obligation can be
			// selected by the thorough tier of other properties
			if !known[i].Fixed && known[i].Obligation == name {
				return &known[i]
			}
		}
		return nil
	}
	var failed, vac []*Obligation
	discharged := 0
	byClass := map[string]int{}
	byBackend := map[string]int{}
	var solverTime, maxTime float64
	nVac := 0
	// reachability canaries: a function is vacuous only if NO return of it is reachable (some returns
	// are legitimately dead under the preconditions, e.g. decode errors on a validated patch)
	reachable := map[string]bool{}
	for _, o := range all {
		if o.MustBeSat && strings.HasSuffix(o.Name, ":reachable") && o.ok() {
			reachable[o.Func] = true
		}
	}
	for _, o := range all {
		if o.MustBeSat {
			nVac++
			if !o.ok() {
				if strings.HasSuffix(o.Name, ":reachable") && reachable[o.Func] {
					continue
				}
				vac = append(vac, o)
			}
			continue
		}
		byClass[o.Class]++
		if o.Result != nil {
			solverTime += o.Result.Time
			if o.Result.Time > maxTime {
				maxTime = o.Result.Time
			}
		}
		if o.ok() {
			discharged++
			byBackend[o.Result.Solver]++
		} else {
			failed = append(failed, o)
		}
	}
	nObl := len(all) - nVac
	rdir := filepath.Join(*flagVerif, "replays", prop)
	os.RemoveAll(rdir)
	rc := 0
	var knownPrinted []string
	violations := 0
	sort.Slice(failed, func(i, j int) bool { return failed[i].Name < failed[j].Name })
	for _, o := range append(failed, vac...) {
		if kf := isKnown(o.Name); kf != nil {
			// the recorded witness must still fail on the real code; otherwise this is a different violation
			still := true
			desc := kf.Observed
			if len(kf.Witness) > 0 {
				var w Witness
				if json.Unmarshal(kf.Witness, &w) == nil && w.Body != "" {
					r := runWitness(&w)
					still = r.Reproduced
					desc = w.Input + " -> " + kf.Observed
				}
			}
			if still {
				fmt.Printf("KNOWN-FINDING: property=%s %s %s\n", kf.Property, o.Name, desc)
				knownPrinted = append(knownPrinted, o.Name)
				o.Known = true
				continue
			}
		}
		violations++
		rc = 1
		os.MkdirAll(rdir, 0o755)
		rf := replayFile{Property: prop, Obligation: o.Name, Class: o.Class, Function: o.Func, Position: o.Pos, Clause: o.Src,
			Status: o.Result.Status, Solver: o.Result.Solver, SolverOutput: o.Result.Outputs, ReplayResult: "none"}
		if o.MustBeSat {
			rf.Clause = "vacuity guard: the assumptions at this point are contradictory"
		}
		// keep the SMT query beside the replay file
		if o.File != "" {
			if b, err := os.ReadFile(o.File); err == nil {
				dst := filepath.Join(rdir, replayBase(o.Name)+".smt2")
				os.WriteFile(dst, b, 0o644)
				rf.SMTFile = dst
				rf.SMTSHA256 = fileSHA(dst)
			}
		}
		suffix := " no-failing-input-found"
		if o.Result.Status == "sat" {
			rf.Model = extractModel(o)
		}
		if o.Class == "W" && o.witness != nil {
			rf.ReplayTest, rf.ReplayCmd, rf.ReplayOutput = o.witness.Body, o.witnessOut.Cmd, o.witnessOut.Output
			rf.ReplayResult = "confirmed: " + o.witness.Input
			suffix = ""
		} else if tryReplay(o, &rf) {
			suffix = ""
		}
		rp := filepath.Join(rdir, replayBase(o.Name)+".json")
		b, _ := json.MarshalIndent(rf, "", " ")
		os.WriteFile(rp, b, 0o644)
		fmt.Printf("VIOLATION property=%s replay=%s obligation=%s status=%s%s\n", prop, rp, o.Name, o.Result.Status, suffix)
	}
	// evidence
	var samples []map[string]interface{}
	step := len(all)/6 + 1
	for i := 0; i < len(all); i += step {
		o := all[i]
		s := map[string]interface{}{"obligation": o.Name, "class": o.Class, "position": o.Pos, "goal": truncate(o.Goal, 400), "answer": o.Result.Status, "solver": o.Result.Solver, "time_s": o.Result.Time}
		if o.Src != "" {
			s["clause"] = o.Src
		}
		samples = append(samples, s)
	}
	var tb []string
	for t := range trusted {
		tb = append(tb, "trusted contract: "+t)
	}
	sort.Strings(tb)
	tb = append(tb, standingAssumptions...)
	var imp []string
	for m := range imprecise {
		imp = append(imp, m)
	}
	sort.Strings(imp)
	sort.Strings(functions)
	var failedNames []string
	for _, o := range failed {
		failedNames = append(failedNames, o.Name+" ["+o.Result.Status+"]")
	}
	dischargedReported := discharged
	oblReported := nObl
	// obligations listed as known findings are reported apart from the proof counts
	for _, o := range failed {
		if o.Known {
			oblReported--
		}
	}
	ev := map[string]interface{}{
		"property_id": prop,
		"tier":        tier,
		"seed":        seedFromEnv(),
		"level":       "proof",
		"wall_s":      wall,
		"violations":  violations,
		"coverage": map[string]interface{}{
			"obligations":              oblReported,
			"discharged":               dischargedReported,
			"checker_cmd":              fmt.Sprintf("bin/govc check %s %s  (VCs from go/ssa of /repo's working tree; z3-new 5.1.0, cvc5 1.0, z3 4.8.12)", prop, tier),
			"trusted_base":             tb,
			"functions_under_contract": functions,
			"by_class":                 byClass,
			"by_backend":               byBackend,
			"solver_time_s":            solverTime,
			"solver_time_max_s":        maxTime,
			"vacuity_guards":           map[string]int{"checked": nVac, "contradictory": len(vac)},
			"lemmas":                   lemmaCount,
			"known_findings":           knownPrinted,
			"failed":                   failedNames,
			"abstractions":             imp,
			"files":                    files,
			"samples":                  samples,
		},
		"assumptions": tb,
	}
	os.MkdirAll(filepath.Join(*flagVerif, "evidence"), 0o755)
	b, _ := json.MarshalIndent(ev, "", " ")
	os.WriteFile(filepath.Join(*flagVerif, "evidence", prop+".json"), b, 0o644)
	fmt.Printf("property=%s tier=%s obligations=%d discharged=%d failed=%d known=%d vacuity=%d/%d functions=%d solver_time=%.1fs wall=%.1fs\n",
		prop, tier, nObl, discharged, len(failed)-len(knownPrinted), len(knownPrinted), nVac-len(vac), nVac, len(functions), solverTime, wall)
	return rc
}

var standingAssumptions = []string{
	"VC generator (this engine) and golang.org/x/tools/go/ssa are trusted; no machine-checked soundness proof of the generator exists",
	"integers are mathematical with explicit range/overflow obligations on int/int64 arithmetic, not bit-vectors; narrower types wrap by mod",
	"A-len: slice, string and map lengths are at most 2^56",
	"memory model: typed regions (struct field / element type / cell type); no aliasing between pointers to different types; no unsafe",
	"a pointer *T (T not a struct) points to its own cell or to a struct field whose address the program takes (found by a whole-program scan; such a field is stored at paddr(object, k) in the cell region of T); addresses handed only to functions outside the repository or to trusted contracts are assumed not to be retained by them",
	"memory exhaustion, stack depth and timing are not modelled",
	"package initialisers establish the stated facts about package-level variables (sentinel errors, raw JSON constants)",
}

func seedFromEnv() int {
	var s int
	fmt.Sscanf(os.Getenv("VERIF_SEED"), "%d", &s)
	return s
}

func extractModel(o *Obligation) map[string]string {
	m := map[string]string{}
	out := o.Result.Model
	lines := strings.Split(out, "\n")
	// collect (define-fun name () Sort value) entries for scalar symbols
	for i := 0; i < len(lines); i++ {
		l := strings.TrimSpace(lines[i])
		if strings.HasPrefix(l, "(define-fun ") {
			parts := strings.Fields(l)
			if len(parts) >= 4 && parts[2] == "()" {
				name := parts[1]
				val := ""
				rest := strings.Join(parts[4:], " ")
				if rest != "" {
					val = strings.TrimSuffix(rest, ")")
				} else if i+1 < len(lines) {
					val = strings.TrimSuffix(strings.TrimSpace(lines[i+1]), ")")
				}
				if strings.HasPrefix(name, "p_") || strings.HasPrefix(name, "t") {
					if len(val) < 200 {
						m[name] = val
					}
				}
			}
		}
	}
	return m
}

// replayBase: file name of an obligation's replay (mangled name plus a short hash, since mangling is not injective)
func replayBase(name string) string {
	h := sha256.Sum256([]byte(name))
	m := mangle(name)
	if len(m) > 120 {
		m = m[:120]
	}
	return fmt.Sprintf("%s_%x", m, h[:3])
}
